#!/usr/bin/env python3-vt
# C03 - context switches preserve execution state and deliver messages:
#   E3: asm->SMT obligations on the assembled cmi_coroutine_context.asm (T1 round trip, T2 frame, T3 initial frame/trampoline,
#       the T3 memory image being produced by symbolically executing the real cmi_coroutine_context_init with E1)
#   E1: coroutine bookkeeping / message passing scripts on cmi_coroutine.c
import sys, os, time
sys.path.insert(0, os.path.join(os.path.dirname(os.path.abspath(__file__)), '..', 'lib'))
from checklib import Check, Family
import build, e3, irparse, symex, z3
from symmem import Ptr, Fn

c = Check('C03')
t0 = time.time()
asm = build.REPO + '/src/port/x86-64/linux/cmi_coroutine_context.asm'
ob = e3.Obligations()
problems, viols = [], []
ninstr = 0
try:
    funcs = e3.disassemble(asm, c.d)
    ninstr += e3.check_switch(funcs, ob)
    # ---- T3: image of the initial frame from the real C code
    for exitfn in (0, 1):
        for stk in (4096, 4104):          # second size: stack top not 16-byte aligned, init must align it down
            ll = build.harness_ir(c.d, os.path.join(build.VERIF, 'harness', 'h_c03.c'), ['EXITFN=%d' % exitfn, 'STKSZ=%d' % stk])
            M = irparse.parse(ll)
            got = {}
            def grab(E, st, how, got=got):
                cpp = st.globs.get('@g_cp')
                cp = E.load(st, cpp, ('ptr', ('i', 8)))
                rd = lambda off, ty=('ptr', ('i', 8)): E.load(st, Ptr(cp.a, cp.o + off), ty)
                stack, sp = rd(16), rd(40)
                a = st.mem.allocs[stack.a]
                frame = []
                for off in range(0, 72, 4):
                    v, _ = st.mem.load_raw(Ptr(sp.a, sp.o + off), 4)
                    if isinstance(v, (Ptr, Fn)):
                        v = v.addr() & 0xFFFFFFFF
                    frame.append((off, 4, v))
                # 8-byte cells hold pointers/symbolic values: read them whole
                frame = []
                for off in range(0, 72, 8):
                    ptr = Ptr(sp.a, sp.o + off)
                    cell = a.cells.get(ptr.o)
                    if cell is not None and cell[0] == 8:
                        v = cell[1]
                    else:
                        v, _ = st.mem.load_raw(ptr, 8)
                    if isinstance(v, (Ptr, Fn)):
                        v = z3.BitVecVal(v.addr(), 64)
                    elif isinstance(v, int):
                        v = z3.BitVecVal(v, 64)
                    frame.append((off, 8, v))
                fn, ctx, ex = rd(56), rd(64), rd(72)
                got.update(frame=frame, sp=sp.addr(), lo=stack.addr(), hi=stack.addr() + a.size, cp=cp.addr(),
                           fn=fn.addr(), ctx=ctx, exitfn=(ex.addr() if isinstance(ex, Fn) else E.fn('@cmi_coroutine_exit').addr()),
                           tramp=E.fn('@cmi_coroutine_trampoline').addr(), viol=len(st.viols))
            E = symex.Engine(M, {'on_finish': grab})
            E.run('@h_ctxinit')
            if E.viol or E.inconcl or not got:
                problems.append('T3 image: symbolic execution of cmi_coroutine_context_init did not complete cleanly: %s %s' % ([v['msg'] for v in E.viol][:3], E.inconcl[:2]))
                for v in E.viol:
                    viols.append({'family': 'ctxinit-exit%d-stk%d' % (exitfn, stk), 'kind': v['kind'], 'label': v.get('label') or '', 'msg': v['msg'], 'where': v['where'], 'tags': {}, 'inputs': v['inputs'],
                                  'harness': 'h_c03.c', 'entry': 'h_ctxinit', 'defs': ['EXITFN=%d' % exitfn, 'STKSZ=%d' % stk]})
                continue
            ctx = got['ctx']
            ctx = ctx if z3.is_expr(ctx) else z3.BitVecVal(ctx if isinstance(ctx, int) else ctx.addr(), 64)
            facts = {'sp': got['sp'], 'stack_lo': got['lo'], 'stack_hi': got['hi'], 'trampoline': z3.BitVecVal(got['tramp'], 64),
                     'fn': z3.BitVecVal(got['fn'], 64), 'cp': z3.BitVecVal(got['cp'], 64), 'ctx': ctx, 'exitfn': z3.BitVecVal(got['exitfn'], 64)}
            n0 = len(ob.pending)
            ninstr += e3.check_trampoline(funcs, ob, got['frame'], facts)
            ob.rename_pending(n0, ' [exit function %s, stack size %d]' % ('given' if exitfn else 'default', stk))
except e3.Unmodelled as e:
    # no verdict is not a violation: the check cannot decide this assembly until the instruction form is added to lib/e3.py
    problems.append('asm->SMT: the assembled context switch contains something outside the semantics table (no verdict): ' + str(e))
ob.run_all()
for r in ob.results:
    if not r['ok']:
        if r['premises_sat'] != 'sat' or r['negated_goal'] == 'unknown':
            problems.append('E3 obligation without verdict: %s (premises %s, negated goal %s)' % (r['name'], r['premises_sat'], r['negated_goal']))
        else:
            viols.append({'family': 'asm', 'kind': 'asm', 'label': r['name'], 'msg': 'obligation refuted: ' + r['name'], 'where': 'cmi_coroutine_context.asm', 'tags': {},
                          'inputs': r.get('model', {}), 'replay': {'confirmed': True, 'note': 'counter-model of the bit-precise instruction semantics'}})
part = {'part': 'asm-smt', 'engine': 'E3 asm->SMT (z3)', 'source': 'src/port/x86-64/linux/cmi_coroutine_context.asm (nasm -f elf64, objdump)',
        'instructions_modelled': ninstr, 'obligations': [(r['name'], 'discharged' if r['ok'] else 'FAILED', r['time_s']) for r in ob.results], 'wall_s': round(time.time() - t0, 2)}
c.add_part(part, len(ob.results), sum(1 for r in ob.results if r['ok']), violations=viols, problems=problems,
           samples=[{'obligation': r['name'], 'result': 'unsat (holds for all register/flag/memory contents)' if r['ok'] else r['negated_goal']} for r in ob.results[:4]],
           queries=2 * len(ob.results), solver_s=ob.solver_s, states=len(ob.results), transitions=ninstr)

def S(*ops):
    return '{' + ','.join('O_' + o for o in ops) + '}'
fams = []
def fam(name, main, cs, tier='quick', witness=False, w=1):
    defs = ['NCO=%d' % len(cs), 'MAINSCRIPT=' + S(*main.split())] + ['CS%d=%s' % (i, S(*x.split())) for i, x in enumerate(cs)] + (['WITNESS=1'] if witness else [])
    fams.append(Family(name + ('-witness' if witness else ''), 'h_c03.c', 'h_coro', defs, opts={'time_limit': 900}, tier=tier, witness=witness, weight=w, validate=3))
fam('yield-resume-return', 'START0 RESUME0 RESUME0', ['YIELD YIELD RET'])
fam('yield-resume-return', 'START0 RESUME0 RESUME0', ['YIELD YIELD RET'], witness=True)
fam('exit-and-restart', 'START0 RESUME0 START0 RESUME0', ['YIELD EXIT'])
fam('deep-yield', 'START0 RESUME0 START1 RESUME1 RESUME0', ['DEEP YIELD RET', 'YIELD DEEP RET'])
fam('transfer-ring', 'START0 START1 RESUME0 RESUME1 RESUME0', ['YIELD XFER1 YIELD RET', 'YIELD XFER0 RET'])
fam('nested-start', 'START0 RESUME0 RESUME1', ['START1 YIELD RET', 'YIELD YIELD YIELD YIELD'])
fam('stop-other', 'START0 START1 RESUME0 RESUME1', ['YIELD STOP1 RET', 'YIELD YIELD RET'])
fam('stop-self', 'START0 RESUME0 START0', ['YIELD STOP0 RET'])
fam('restart-from-another-coroutine', 'START0 START1 RESUME1 START0', ['RET', 'START0 YIELD START0 RET'])      # the ending run goes back to whoever started *this* run
fam('restart-after-exit-from-another', 'START0 START1 START0', ['EXIT', 'START0 RET'])
fam('transfer-to-main', 'START0 RESUME0 START1 RESUME0', ['XFERM YIELD RET', 'XFER0 RET'])
fam('three-coroutines', 'START0 START1 START2 RESUME0 RESUME1 RESUME2 RESUME0', ['YIELD XFER1 RET', 'YIELD XFER2 YIELD RET', 'YIELD DEEP XFER0 RET'], tier='thorough', w=5)
c.run_e1(fams, assumptions=['E1 switches contexts by the contract that the E3 obligations establish for the assembled object',
                            'x87 control word, AVX state, signal masks, stack exhaustion and the Windows port are outside',
                            'popfq modelled at CPL 3 / IOPL < 3 (IF and IOPL unchanged)'],
         bounds=['E3: all register, flag, MXCSR and memory contents (no loop; 30 instructions)', 'E1: scripts of <= 7 operations on <= 3 coroutines + main, messages symbolic 64-bit'])
c.finish(functions=['cmi_coroutine_context_switch (asm)', 'cmi_coroutine_trampoline (asm)', 'cmi_coroutine_context_init', 'cmi_coroutine.c (all)'],
         trusted=['nasm + objdump disassembly of the tree object', 'hand-written semantics of 14 instruction forms (an unknown form fails the check)', 'z3 5.1', 'E1 interpreter'],
         explanation='asm->SMT: each obligation is a validity query over arbitrary machine state; E1: message passing and bookkeeping over scripts')
