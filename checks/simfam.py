# simfam.py - scenario families of harness/h_sim.c per property.  A family = scripts + options; the
# symbolic parameters (durations, signals, priorities, amounts) are chosen by the solver inside each.
import sys, os
sys.path.insert(0, os.path.join(os.path.dirname(os.path.abspath(__file__)), '..', 'lib'))
from checklib import Family


def S(*ops):
    return '{' + ','.join('OP_' + o for o in ops) + '}'


def fam(name, scripts, tier='quick', witness=False, w=2, opts=None, **kw):
    defs = ['NPROC=%d' % len(scripts)]
    for i, sc in enumerate(scripts):
        defs.append('SCRIPT%d=%s' % (i, S(*sc.split())))
    for k, v in kw.items():
        defs.append('%s=%s' % (k, v))
    if witness:
        defs.append('WITNESS=1')
    o = {'max_viol': 400, 'time_limit': 900 if tier == 'quick' else 2400}
    o.update(opts or {})
    return Family(name + ('-witness' if witness else ''), 'h_sim.c', 'h_sim', defs, opts=o, tier=tier, witness=witness, weight=w, validate=3)


FAMILIES = {}

FAMILIES['C04'] = [
    fam('hold-intr-timer', ['TADD HOLD HOLD', 'HOLD INTR0'], PRIOSYM=1, w=3),
    fam('hold-intr-timer', ['TADD HOLD HOLD', 'HOLD INTR0'], PRIOSYM=1, witness=True),
    fam('two-timers-cancel', ['TADD TADD HOLD TCANCEL HOLD', 'HOLD INTR0'], w=6),
    fam('timers-clear', ['TADD TADD TCLEAR HOLD TADD HOLD']),
    fam('timer-set-replaces', ['TADD TADD TSET HOLD HOLD', 'HOLD INTR0'], w=4),
    fam('timer-set-after-yield', ['TADD TADD YIELD TSET HOLD HOLD', 'HOLD RESUME0'], w=4),
    fam('timers-clear-after-waitp', ['TADD TADD WAITP1 TCLEAR HOLD', 'HOLD HOLD'], w=4),
    fam('timers-cancel-after-acquire', ['TADD TADD ACQ TCANCEL HOLD REL', 'ACQ HOLD HOLD REL'], w=4),
    fam('timers-clear-after-yield', ['TADD TADD YIELD TCLEAR HOLD', 'HOLD RESUME0'], w=3),
    fam('lonely-interrupt', ['HOLD HOLDZ', 'INTR0'], PRIOSYM=1),
    fam('holdz-chain', ['HOLDZ TADD HOLDZ HOLD', 'HOLDZ INTR0']),
    fam('waitp-timeout-then-hold', ['TADD WAITP1 HOLD', 'HOLD HOLD'], w=3),
    fam('waitp-timeout-awaited-scheduled-first', ['HOLD', 'TADD WAITP0 HOLD HOLD'], w=3),   # the awaited process's end is queued before the waiter's timer: end, timeout, end-notice in one instant
    fam('waitp-stopped', ['WAITP1 HOLD', 'HOLD HOLD', 'HOLD STOP1'], w=3),
    fam('waitp-both-ends', ['TADD WAITP1 HOLD', 'HOLD', 'WAITP1 HOLD INTR0'], w=4),
    fam('waite-timeout-then-hold', ['TADD WAITE HOLD', 'HOLD'], w=3),
    fam('waite-cancelled', ['WAITE HOLD', 'HOLD CANCELE', 'TADD WAITE'], w=3),
    fam('waite-cancelled-by-pattern', ['WAITE HOLD', 'HOLD CANCELE', 'TADD WAITE'], CANCELE_PATTERN=1, w=3),
    fam('waite-cancelled-by-pattern-2-waiters', ['WAITE HOLD', 'WAITE', 'HOLD CANCELE HOLD'], CANCELE_PATTERN=1, w=3),
    fam('waite-interrupt-between', ['WAITE HOLD', 'HOLD INTR0'], PRIOSYM=1, w=3),
    fam('acquire-timeout-vs-grant', ['ACQ HOLD REL', 'TADD ACQ HOLD REL', 'ACQ HOLD REL'], w=3),
    fam('cond-timeout-vs-signal', ['TADD CWAIT HOLD', 'HOLD CSET CSIG', 'CWAIT'], w=3),
    fam('cond-timeout-vs-signal-prio', ['TADD CWAIT HOLD', 'HOLD CSET CSIG', 'CWAIT'], PRIOS='{0,1,0}', w=3),
    fam('yield-resume', ['YIELD HOLD', 'HOLD RESUME0 HOLD']),
    fam('bufget-timeout', ['TADD BGET HOLD', 'HOLD BPUT'], w=4),
    fam('poolacq-timeout', ['PACQ HOLD PRELALL', 'TADD PACQ HOLD'], w=4),
    fam('oqget-timeout', ['TADD OGET HOLD', 'HOLD OPUT', 'OGET']),
    fam('pqget-timeout', ['TADD QGET HOLD', 'HOLD QPUT', 'QGET']),
    fam('preempted-in-hold', ['ACQ TADD HOLD HOLD', 'TADD PREEMPT HOLD REL'], PRIOS='{0,1}', w=3),
    fam('prio-change-while-granted', ['ACQ HOLD REL', 'ACQ REL', 'TADD ACQ REL', 'HOLD PRIO1 PRIO2'], w=3),
    # thorough
    # hold-intr-timer-3 (thorough): did not finish within 2400 s on 16 cores, not claimed
    fam('waitp-chain', ['TADD WAITP1 HOLD', 'TADD WAITP2 HOLD', 'HOLD HOLD', 'HOLD STOP2'], tier='thorough', w=30),
    # acquire-timeout-vs-grant-4 (thorough): did not finish within 2400 s on 16 cores, not claimed
]

FAMILIES['C05'] = [
    fam('release-reacquire', ['ACQ HOLD REL ACQ HOLD REL', 'ACQ HOLD REL', 'HOLD ACQ REL'], w=3),
    fam('release-reacquire', ['ACQ HOLD REL ACQ HOLD REL', 'ACQ HOLD REL', 'HOLD ACQ REL'], witness=True),
    fam('preempt-prio', ['ACQ HOLD REL', 'HOLD PREEMPT HOLD REL', 'TADD ACQ REL'], PRIOSYM=1, w=5),
    fam('preempt-and-interrupt-same-instant', ['ACQ HOLD HOLD', 'HOLD PREEMPT HOLD REL', 'HOLD INTR0'], PRIOS='{0,5,0}', w=3),      # known finding F-C05-a
    fam('preempt-at-victims-wakeup', ['ACQ HOLD HOLD', 'HOLD PREEMPT HOLD REL', 'HOLD ACQ REL'], PRIOS='{0,5,0}', w=3),      # the preemptor runs first in the instant the victim's hold ends
    fam('preempt-chain', ['PREEMPT HOLD REL', 'HOLD PREEMPT HOLD REL', 'HOLD PREEMPT REL'], PRIOSYM=1, w=6),
    fam('holder-stopped', ['ACQ HOLD', 'ACQ HOLD REL', 'HOLD STOP0'], w=3),
    fam('holder-exits', ['ACQ HOLD EXIT', 'TADD ACQ HOLD', 'ACQ REL'], w=3),
    fam('holder-returns-holding', ['ACQ HOLD', 'ACQ HOLD', 'ACQ HOLD'], w=2),
    fam('waiter-interrupted', ['ACQ HOLD REL', 'ACQ REL', 'HOLD INTR1', 'ACQ REL'], w=3),
    fam('waiter-stopped', ['ACQ HOLD REL', 'ACQ REL', 'HOLD STOP1', 'ACQ REL'], w=3),
    fam('zero-hold-4', ['ACQ HOLDZ REL', 'ACQ HOLDZ REL', 'ACQ HOLDZ REL', 'ACQ HOLDZ REL'], SAMEPRIO=1, w=2),
    fam('stop-self-holding', ['ACQ HOLD STOP0', 'ACQ REL', 'WAITP0']),
    fam('preempt-chain-4', ['ACQ HOLD REL', 'HOLD PREEMPT HOLD REL', 'HOLD PREEMPT HOLD REL', 'TADD ACQ REL'], tier='thorough', PRIOSYM=1, w=50),
    fam('release-reacquire-4', ['ACQ HOLD REL ACQ HOLD REL', 'ACQ HOLD REL ACQ REL', 'HOLD ACQ REL', 'TADD ACQ REL'], tier='thorough', w=40),
]

FAMILIES['C06'] = [
    fam('resource-2-waiters', ['ACQ HOLD REL', 'HOLD ACQ REL', 'HOLD ACQ REL'], PRIOSYM=1, w=8),
    fam('resource-3-waiters-sameprio', ['ACQ HOLD REL', 'HOLD ACQ REL', 'HOLD ACQ REL', 'HOLD ACQ REL'], SAMEPRIO=1, w=8),
    fam('resource-3-waiters', ['ACQ HOLD REL', 'HOLD ACQ REL', 'HOLD ACQ REL', 'HOLD ACQ REL'], tier='thorough', PRIOSYM=1, w=60),
    fam('resource-2-waiters', ['ACQ HOLD REL', 'HOLD ACQ REL', 'HOLD ACQ REL'], PRIOSYM=1, witness=True, w=8),
    fam('resource-prio-change', ['ACQ HOLD REL', 'ACQ REL', 'ACQ REL', 'HOLD PRIO1 PRIO2'], PRIOSYM=1, w=6),
    fam('resource-reprio-nonfront', ['ACQ HOLD PRIO3 HOLD REL', 'HOLD ACQ REL', 'HOLD ACQ REL', 'HOLD ACQ REL'], PRIOS='{0,10,5,1}', DUR0='{4,2}', DUR1='{1}', DUR2='{2}', DUR3='{3}', w=3),
    fam('resource-reprio-nonfront-2', ['ACQ HOLD PRIO2 HOLD REL', 'HOLD ACQ REL', 'HOLD ACQ REL', 'HOLD ACQ REL'], PRIOS='{0,7,3,7}', DUR0='{4,2}', DUR1='{1}', DUR2='{2}', DUR3='{3}', w=3),
    fam('resource-waiter-leaves', ['ACQ HOLD REL', 'TADD ACQ REL', 'ACQ REL', 'ACQ REL'], PRIOSYM=1, w=8),
    fam('oq-getters', ['HOLD OPUT OPUT', 'OGET', 'OGET', 'HOLD OGET'], PRIOSYM=1, w=6),
    fam('oq-putters', ['OPUT OPUT', 'HOLD OPUT', 'HOLD HOLD OGET OGET'], PRIOSYM=1, QCAP=1, w=8),
    fam('oq-putters-4', ['OPUT OPUT', 'HOLD OPUT', 'HOLD OPUT', 'HOLD HOLD OGET OGET OGET'], tier='thorough', PRIOSYM=1, QCAP=1, w=60),
    fam('pq-getters', ['HOLD QPUT QPUT', 'QGET', 'TADD QGET'], PRIOSYM=1, w=6),
    fam('pq-getters-4', ['HOLD QPUT QPUT QPUT', 'QGET', 'QGET', 'TADD QGET'], tier='thorough', PRIOSYM=1, w=60),
    fam('barging', ['ACQ HOLD REL ACQ HOLD REL', 'HOLD ACQ REL', 'HOLD ACQ REL'], SAMEPRIO=1, w=3),
    fam('resource-4-waiters-prio', ['ACQ HOLD REL', 'HOLD ACQ HOLDZ REL', 'HOLD ACQ HOLDZ REL', 'HOLD ACQ PRIO2 REL'], tier='thorough', PRIOSYM=1, w=50),
]

FAMILIES['C07'] = [
    fam('pool-3-acquire', ['PACQ HOLD PRELALL', 'PACQ HOLD PRELALL', 'TADD PACQ HOLD PRELALL'], w=5),
    fam('pool-3-acquire', ['PACQ HOLD PRELALL', 'PACQ HOLD PRELALL', 'TADD PACQ HOLD PRELALL'], witness=True, w=5),
    fam('pool-preempt', ['PACQ HOLD PRELALL', 'HOLD PPRE HOLD PRELALL', 'TADD PACQ HOLD PRELALL'], PRIOS='{0,1,2}', w=10),
    fam('pool-preempt-symprio', ['PACQ HOLD PRELALL', 'HOLD PPRE HOLD PRELALL'], PRIOSYM=1, POOLCAP=0, w=6),
    fam('pool-preempt-and-interrupt-same-instant', ['PACQ HOLD HOLD', 'HOLD PPRE HOLD PRELALL', 'HOLD INTR0'], PRIOS='{0,5,0}', POOLCAP=2, w=6),      # known finding F-C05-a (pool variant)
    fam('pool-cross-preempt', ['PACQ ACQ HOLD PACQ HOLD', 'HOLD PACQ HOLD PRELALL', 'HOLD PREEMPT HOLD'], PRIOS='{0,1,1}', w=12),
    fam('pool-partial-release-exit-stop', ['PACQ HOLD PREL HOLD', 'PACQ HOLD EXIT', 'HOLD STOP0'], w=4),
    fam('pool-topup-interrupted', ['PACQ HOLD PACQ HOLD PRELALL', 'PACQ HOLD PRELALL', 'HOLD INTR0'], POOLCAP=4, w=8),
    fam('pool-firstgrab-interrupted', ['PACQ HOLD PRELALL', 'PACQ HOLD', 'HOLD INTR1', 'PACQ HOLD PRELALL'], POOLCAP=3, w=10),
    fam('pool-prio-change', ['PACQ HOLD PRELALL', 'HOLD PPRE HOLD', 'HOLD PRIO0'], PRIOS='{0,1,0}', w=4),
    fam('pool-preemptor-reprioritised-while-blocked', ['PACQ HOLD PREL HOLD PREL PACQ HOLD', 'HOLD PPRE HOLD', 'HOLD PACQ HOLD', 'HOLD PRIO1 HOLD'], PRIOS='{10,8,5,0}', POOLCAP=4,
        DUR0='{4,1,9}', DUR1='{1,9}', DUR2='{2,9}', DUR3='{3,9}', w=8),
    # pool-preempt-4 (thorough): did not finish within 2400 s on 16 cores, not claimed
    # pool-symcap-3 (thorough): did not finish within 2400 s on 16 cores, not claimed
]

FAMILIES['C08'] = [
    fam('resource-grant-vs-timeout', ['ACQ HOLD REL', 'TADD ACQ HOLD REL', 'ACQ HOLD REL'], w=3),
    fam('resource-grant-vs-timeout', ['ACQ HOLD REL', 'TADD ACQ HOLD REL', 'ACQ HOLD REL'], witness=True),
    fam('resource-grant-vs-interrupt', ['ACQ HOLD REL', 'ACQ HOLD REL', 'ACQ HOLD REL', 'HOLD INTR1'], PRIOSYM=1, w=8),
    fam('resource-grant-vs-stop', ['ACQ HOLD REL', 'ACQ HOLD REL', 'ACQ HOLD REL', 'HOLD STOP1'], w=4),
    fam('resource-drop-on-exit', ['ACQ HOLD EXIT', 'TADD ACQ HOLD', 'ACQ REL'], w=3),
    fam('pool-rollback-first', ['PACQ HOLD PRELALL', 'PACQ HOLD', 'HOLD INTR1', 'PACQ HOLD PRELALL'], POOLCAP=3, w=10),
    fam('pool-rollback-topup', ['PACQ HOLD PACQ HOLD PRELALL', 'PACQ HOLD PRELALL', 'HOLD INTR0'], POOLCAP=4, w=12),
    fam('pool-rollback-topup-waiter', ['PACQ HOLD PACQ YIELD', 'PACQ YIELD', 'HOLD HOLD INTR0', 'HOLD PACQ YIELD'], POOLCAP=4, w=14),
    fam('pool-rollback-first-waiter', ['PACQ YIELD', 'HOLD PACQ YIELD', 'HOLD HOLD INTR1', 'HOLD HOLD PACQ YIELD'], POOLCAP=3, w=10),
    fam('pool-leftovers', ['PACQ HOLD PRELALL', 'HOLD PACQ HOLD PRELALL', 'HOLD PACQ HOLD PRELALL'], POOLCAP=3, w=6),
    fam('pool-leftovers-after-topup', ['PACQ HOLD PREL HOLD PREL', 'HOLD PACQ HOLD', 'HOLD PACQ HOLD'], POOLCAP=4, DUR0='{3,2}', DUR1='{1,9}', DUR2='{2,1}', w=2),    # a waiter that tops up its partial grab must pass on what is left
    fam('pool-drop-on-stop', ['PACQ HOLD', 'PACQ HOLD PRELALL', 'HOLD STOP0', 'TADD PACQ'], w=6),
    fam('buffer-chain', ['BPUT HOLD BPUT', 'TADD BGET BGET'], BUFCAP=2, w=10),
    fam('buffer-chain-3', ['BPUT HOLD BPUT', 'TADD BGET HOLD', 'BGET'], tier='thorough', BUFCAP=2, w=60),
    fam('buffer-put-blocked', ['BPUT BPUT', 'HOLD BGET', 'TADD BPUT'], BUFCAP=1, w=8),
    fam('buffer-two-putters-one-get', ['BPUT HOLD HOLD BGET', 'HOLD BPUT', 'HOLD BPUT'], BUFCAP=4, w=12),   # one get makes room for both blocked putters: the first passes the left-over space on
    fam('buffer-two-getters-one-put', ['HOLD HOLD BPUT', 'BGET', 'BGET'], BUFCAP=4, w=8),
    fam('oq-both-ends', ['OPUT OPUT HOLD OPUT', 'TADD OGET HOLD OGET', 'OGET'], QCAP=1, w=3),
    fam('oq-granted-getter-stopped', ['HOLD OPUT', 'OGET', 'OGET', 'HOLD STOP1'], QCAP=2, w=3),
    fam('pq-granted-getter-interrupted', ['HOLD QPUT', 'QGET', 'QGET', 'HOLD INTR1'], QCAP=2, PRIOSYM=1, w=5),
    fam('pool-granted-waiter-stopped', ['PACQ HOLD PRELALL', 'PACQ YIELD', 'PACQ YIELD', 'HOLD STOP1'], POOLCAP=1, w=4),
    fam('buffer-granted-getter-stopped', ['HOLD BPUT', 'BGET', 'BGET', 'HOLD STOP1'], BUFCAP=2, w=6),
    fam('pq-cancel-wakes-putter', ['QPUT QPUT HOLD', 'HOLD QCANCEL', 'HOLD QPUT QGET'], QCAP=1, w=3),
    fam('pq-two-cancels-two-putters', ['QPUT QPUT HOLD QCANCEL QCANCEL', 'QPUT', 'QPUT'], QCAP=2, w=4),      # two removals in one instant, two blocked putters
    fam('pq-get-and-cancel-two-putters', ['QPUT QPUT HOLD QGET QCANCEL', 'QPUT', 'QPUT'], QCAP=2, w=4),
    fam('pq-both-ends', ['QPUT QPUT QPUT HOLD', 'HOLD QGET QGET', 'TADD QGET QCANCEL'], QCAP=2, w=4),
    fam('resource-4-coincidences', ['ACQ HOLD REL', 'TADD ACQ HOLD REL', 'TADD ACQ HOLD REL', 'ACQ REL'], tier='thorough', PRIOSYM=1, w=60),
    # buffer-full-range (thorough, C08): did not finish within 2400 s, not claimed (the quick families buffer-full-range-* of C11 cover two operations)
]

FAMILIES['C09'] = [
    fam('waitp-timeout-awaited-ends-same-instant', ['HOLD', 'TADD WAITP0 HOLD HOLD'], w=3),   # end of the awaited process, the waiter's timer and the end notice in one instant: resumed exactly once
    fam('waitp-timeout-awaited-ends-same-instant-prio', ['HOLD', 'TADD WAITP0 HOLD HOLD'], PRIOSYM=1, w=4),
    fam('end-holding-waited', ['ACQ PACQ TADD HOLD', 'WAITP0 HOLD', 'ACQ REL', 'TADD PACQ'], w=4),
    fam('end-holding-waited', ['ACQ PACQ TADD HOLD', 'WAITP0 HOLD', 'ACQ REL', 'TADD PACQ'], witness=True, w=4),
    fam('exit-holding-waited', ['ACQ PACQ TADD HOLD EXIT', 'WAITP0 HOLD', 'WAITP0 ACQ REL'], w=4),
    fam('stopped-in-hold', ['ACQ PACQ TADD TADD HOLD HOLD', 'HOLD STOP0 HOLD', 'WAITP0 ACQ REL', 'WAITP0'], w=6),
    fam('stopped-in-guard', ['ACQ HOLD REL', 'TADD ACQ HOLD', 'HOLD STOP1', 'WAITP1 HOLD'], w=6),
    fam('stopped-in-waitp', ['HOLD HOLD', 'TADD WAITP0 HOLD', 'HOLD STOP1', 'WAITP1'], w=6),
    fam('stopped-in-waite', ['TADD WAITE HOLD', 'HOLD STOP0', 'WAITP0 HOLD'], w=4),
    fam('stop-self', ['ACQ PACQ TADD STOP0', 'WAITP0 ACQ REL', 'TADD PACQ'], w=3),
    fam('stop-self-waited', ['ACQ HOLD STOP0', 'WAITP0 ACQ REL', 'HOLD WAITP0'], w=3),       # waiters registered before the process stops itself
    fam('exit-waited', ['ACQ HOLD EXIT', 'WAITP0 ACQ REL', 'HOLD WAITP0'], w=3),
    fam('restart-after-stop', ['ACQ PACQ TADD HOLD', 'HOLD STOP0 HOLD RESTART0 WAITP0', 'WAITP0 ACQ REL'], w=5),
    fam('restart-after-return', ['TADD ACQ HOLD', 'WAITP0 RESTART0 WAITP0 HOLD'], w=3),
    fam('ends-with-interrupt-pending', ['HOLD', 'HOLD INTR0 HOLD'], PRIOSYM=1, w=3),
    fam('stopped-with-resume-pending', ['YIELD HOLD', 'HOLD RESUME0 STOP0 HOLD'], w=2),
    fam('exits-with-interrupt-pending', ['HOLD EXIT', 'HOLD INTR0', 'WAITP0'], PRIOSYM=1, w=4),
    fam('stopped-with-interrupt-and-resume-pending', ['YIELD', 'HOLD RESUME0 INTR0 HOLD', 'HOLD STOP0'], PRIOSYM=1, w=4),
    fam('stopped-with-pending-wakeup', ['ACQ HOLD REL', 'ACQ HOLD', 'HOLD STOP1', 'ACQ REL'], SAMEPRIO=1, w=4),
    fam('stopped-in-condition', ['TADD CWAIT HOLD', 'HOLD STOP0', 'WAITP0 CSET CSIG'], w=3),
    fam('stopped-in-buffer-put', ['BPUT BPUT HOLD', 'HOLD STOP0', 'WAITP0 BGET'], BUFCAP=2, w=4),
    fam('stopped-in-multi', ['ACQ PACQ TADD HOLD HOLD', 'TADD WAITP0 HOLD', 'HOLD STOP0 STOP1', 'WAITP0 WAITP1 ACQ PACQ'], tier='thorough', w=60),
]

FAMILIES['C11'] = [
    fam('buffer-chain', ['BPUT HOLD BPUT', 'TADD BGET BGET'], BUFCAP=2, w=10),
    fam('buffer-chain-symcap', ['BPUT BPUT', 'BGET'], BUFCAP=0, w=6),
    fam('buffer-chain-3', ['BPUT HOLD BPUT', 'TADD BGET HOLD', 'BGET'], tier='thorough', BUFCAP=0, w=60),
    fam('buffer-chain', ['BPUT HOLD BPUT', 'TADD BGET BGET'], BUFCAP=2, witness=True, w=10),
    fam('buffer-unlimited', ['BPUT BPUT', 'TADD BGET BGET'], BUFCAP=-1, w=3),
    fam('buffer-put-blocked', ['BPUT BPUT', 'HOLD BGET', 'TADD BPUT'], BUFCAP=1, w=8),
    fam('buffer-get-interrupted', ['BPUT HOLD BPUT', 'BGET', 'HOLD INTR1'], BUFCAP=3, w=8),
    fam('buffer-put-stopped', ['BPUT BPUT HOLD', 'HOLD STOP0', 'WAITP0 BGET'], BUFCAP=2, w=4),
    fam('buffer-full-range-2', ['BPUT', 'BGET'], BUFCAP=3, BAMT_FULL=1, w=12),
    fam('buffer-full-range-2t', ['BPUT HOLD', 'TADD BGET'], tier='thorough', BUFCAP=3, BAMT_FULL=1, w=60),
    fam('buffer-full-range-put-put', ['BPUT TADD BPUT'], BUFCAP=3, BAMT_FULL=1, w=12),
    fam('buffer-full-range-unlimited-put-put', ['BPUT TADD BPUT'], BUFCAP=-1, BAMT_FULL=1, w=8),
    fam('buffer-full-range-unlimited', ['BPUT BPUT', 'BGET'], BUFCAP=-1, BAMT_FULL=1, w=12, opts={}),
    fam('buffer-full-range-3', ['BPUT HOLD BPUT', 'TADD BGET', 'BGET'], tier='thorough', BUFCAP=0, BAMT_FULL=1, w=60),
    fam('buffer-4', ['BPUT HOLD BPUT', 'BPUT', 'TADD BGET HOLD BGET', 'BGET'], tier='thorough', BUFCAP=0, w=60),
]

FAMILIES['C12'] = [
    fam('oq-both-ends', ['OPUT OPUT HOLD OPUT', 'TADD OGET HOLD OGET', 'OGET'], QCAP=1, w=3),
    fam('oq-both-ends', ['OPUT OPUT HOLD OPUT', 'TADD OGET HOLD OGET', 'OGET'], QCAP=1, witness=True, w=3),
    fam('oq-null-and-order', ['OPUT OPUT OPUT OPUT', 'HOLD OGET OGET', 'OGET OGET'], QCAP=0, w=4),
    fam('oq-duplicates-and-null', ['OPUT OPUT OPUT OPUT OPUT OPUT HOLD', 'HOLD OGET OGET OGET HOLD OGET OGET OGET'], QCAP=-1, w=3),
    fam('oq-unlimited', ['OPUT OPUT OPUT', 'OGET HOLD OGET', 'TADD OGET'], QCAP=-1, w=3),
    fam('oq-consumer-interrupted', ['HOLD OPUT', 'OGET', 'OGET', 'HOLD INTR1'], QCAP=2, w=4),
    fam('oq-producer-stopped', ['OPUT OPUT OPUT', 'HOLD STOP0', 'HOLD OGET OGET'], QCAP=1, w=4),
    fam('oq-get-then-put-same-instant', ['OPUT OPUT', 'HOLD OGET OPUT HOLD OGET OGET'], QCAP=1, w=2),
    fam('oq-two-producers-same-instant', ['OPUT OPUT HOLD', 'HOLD OGET', 'HOLD OPUT', 'HOLD HOLD OGET OGET OGET'], QCAP=1, w=4),
    fam('pq-get-then-put-same-instant', ['QPUT QPUT', 'HOLD QGET QPUT HOLD QGET QGET'], QCAP=1, w=3),
    fam('pq-order', ['QPUT QPUT QPUT HOLD', 'HOLD QGET QGET QGET'], QCAP=-1, w=6),
    fam('pq-reprio-later-puts', ['HOLD QPUT QPUT QPUT QREPRIO', 'HOLD HOLD QGET QGET QGET'], QCAP=-1, w=8),
    fam('pq-reprio-spread-puts', ['QPUT HOLD QPUT HOLD QPUT QREPRIO', 'HOLD HOLD HOLD QGET QGET QGET'], QCAP=-1, w=8),
    fam('pq-reprio-cancel', ['QPUT QPUT QPUT QREPRIO QCANCEL', 'HOLD QGET QGET'], QCAP=-1, w=8),
    fam('pq-both-ends', ['QPUT QPUT QPUT HOLD', 'HOLD QGET QGET', 'TADD QGET QCANCEL'], QCAP=2, w=4),
    fam('pq-cancel-wakes-putter', ['QPUT QPUT HOLD', 'HOLD QCANCEL', 'HOLD QPUT QGET'], QCAP=1, w=3),
    fam('pq-consumer-interrupted', ['HOLD QPUT', 'QGET', 'QGET', 'HOLD INTR1'], QCAP=2, w=4),
    fam('pq-order-4', ['QPUT QPUT QPUT QPUT QREPRIO', 'HOLD QGET QGET QGET QGET'], tier='thorough', QCAP=-1, w=50),
]

FAMILIES['C13'] = [
    fam('cond-two-waiters', ['CWAIT HOLD', 'CWAIT', 'HOLD CSET CSIG HOLD CSET CSIG'], PRIOSYM=1, w=6),
    fam('cond-two-waiters', ['CWAIT HOLD', 'CWAIT', 'HOLD CSET CSIG HOLD CSET CSIG'], witness=True, w=3),
    fam('cond-three-waiters', ['CWAIT', 'CWAIT', 'CWAIT', 'HOLD CSET CSIG CSET CSIG'], w=6),
    fam('cond-cancel-remove', ['TADD CWAIT HOLD', 'CWAIT', 'HOLD CSET CSIG CCANCEL1 CREMOVE0'], w=4),
    fam('cond-timeout-vs-signal', ['TADD CWAIT HOLD', 'HOLD CSET CSIG', 'CWAIT'], w=3),
    fam('cond-timeout-vs-signal-prio', ['TADD CWAIT HOLD', 'HOLD CSET CSIG', 'CWAIT'], PRIOS='{0,1,0}', w=3),
    fam('cond-timeout-vs-signal-symprio', ['TADD CWAIT HOLD HOLD', 'HOLD CSET CSIG'], PRIOSYM=1, w=4),
    fam('cond-waiter-interrupted', ['CWAIT HOLD', 'CWAIT', 'HOLD INTR0 CSET CSIG'], PRIOSYM=1, w=4),
    fam('cond-observe-register-1', ['ACQ HOLD REL', 'CWAIT HOLD'], OBSERVE=1),
    fam('cond-observe-subscribe-1', ['ACQ HOLD REL', 'CWAIT HOLD'], OBSERVE=2),
    fam('cond-observe-register-2', ['ACQ HOLD REL', 'CWAIT HOLD', 'CWAIT'], OBSERVE=1),
    fam('cond-observe-subscribe-2', ['ACQ HOLD REL', 'CWAIT HOLD', 'TADD CWAIT'], OBSERVE=2),
    fam('cond-observe-with-resource-waiter', ['ACQ HOLD REL', 'ACQ HOLD REL', 'CWAIT HOLD'], OBSERVE=1, w=2),
    fam('cond-observe-subscribe-with-resource-waiter', ['ACQ HOLD REL', 'HOLD ACQ REL', 'CWAIT'], OBSERVE=2, w=2),
    fam('cond-observe-stop-holder', ['ACQ HOLD', 'CWAIT HOLD', 'HOLD STOP0'], OBSERVE=1),
    fam('cond-four', ['CWAIT HOLD CWAIT', 'CWAIT', 'TADD CWAIT', 'HOLD CSET CSIG HOLD CSET CSIG'], tier='thorough', PRIOSYM=1, w=50),
]

FAMILIES['C14'] = [
    fam('rec-resource-pool', ['ACQ PACQ HOLD REL PRELALL', 'HOLD PACQ ACQ HOLD', 'HOLD EXIT'], REC=1, CONCRETE_D=1, w=5),
    fam('rec-resource-pool', ['ACQ PACQ HOLD REL PRELALL', 'HOLD PACQ ACQ HOLD', 'HOLD EXIT'], REC=1, CONCRETE_D=1, witness=True, w=5),
    fam('rec-queues-buffer', ['OPUT QPUT HOLD OGET QGET', 'HOLD QPUT QCANCEL HOLD', 'BPUT HOLD BGET'], REC=1, CONCRETE_D=1, BAMT_FULL=2, w=8),
    fam('rec-symbolic-times', ['ACQ PACQ HOLD REL PRELALL', 'HOLD PACQ ACQ HOLD', 'HOLD STOP1'], REC=1, w=4),
    fam('rec-preempt', ['ACQ PACQ HOLD', 'HOLD PREEMPT PPRE HOLD REL PRELALL'], REC=1, PRIOS='{0,1}', w=3),
    fam('rec-pool-rollback', ['PACQ HOLD PRELALL', 'PACQ HOLD', 'HOLD INTR1'], REC=1, POOLCAP=3, w=5),
    fam('rec-pool-rollback-topup', ['PACQ PACQ HOLD', 'PACQ HOLD', 'HOLD INTR0 HOLD'], REC=1, POOLCAP=3, w=10),
    fam('rec-drop-on-stop', ['ACQ PACQ HOLD', 'HOLD STOP0', 'HOLD ACQ PACQ HOLD'], REC=1, CONCRETE_D=1, w=4),
    fam('rec-interim-reports', ['ACQ PACQ HOLD HOLD REL PRELALL HOLD', 'HOLD INTERIM HOLD INTERIM HOLD INTERIM'], REC=1, CONCRETE_D=1, w=6),   # finalize in mid-run, twice without a change in between
    fam('rec-buffer-partial', ['BPUT HOLD BPUT', 'TADD BGET BGET'], REC=1, BUFCAP=2, CONCRETE_D=1, BAMT_FULL=2, w=8),
    fam('rec-same-instant', ['ACQ REL ACQ REL PACQ PRELALL', 'HOLDZ OPUT OGET QPUT QGET'], REC=1, CONCRETE_D=1, w=2),
    # rec-everything (thorough: four processes over all five recorded objects): 27 paths with undecided solver queries and the budget exhausted: not claimed
]

# C13 with several observers on one guard and unsubscribe (own harness; every waiter is the head of its own condition)
def _ob(name, tier='quick', w=2, witness=False, **kw):
    defs = ['%s=%s' % (k, v) for k, v in kw.items()] + (['WITNESS=1'] if witness else [])
    return Family(name + ('-witness' if witness else ''), 'h_c13o.c', 'h_observers', defs, opts={'max_viol': 400, 'time_limit': 900 if tier == 'quick' else 2400},
                  tier=tier, witness=witness, weight=w, validate=3)
FAMILIES['C13'] += [_ob('observers-3-one-guard', NC=3, NRES=1), _ob('observers-3-one-guard', NC=3, NRES=1, witness=True), _ob('observers-3-two-guards', NC=3, NRES=2, w=8),
                    _ob('observers-4-one-guard', NC=4, NRES=1, w=12), _ob('observers-4-two-guards', tier='thorough', NC=4, NRES=2, w=60)]
# C13 with many waiters (own harness: the waiting list is a heap, removals in the middle move entries between subtrees)
def _mc(name, tier='quick', w=2, witness=False, **kw):
    defs = ['%s=%s' % (k, v) for k, v in kw.items()] + (['WITNESS=1'] if witness else [])
    return Family(name + ('-witness' if witness else ''), 'h_c13m.c', 'h_manycond', defs, opts={'max_viol': 400, 'time_limit': 900 if tier == 'quick' else 2400},
                  tier=tier, witness=witness, weight=w, validate=3)
FAMILIES['C13'] += [_mc('manycond-6-staggered', NW=6, STAGGER=1), _mc('manycond-7-staggered', NW=7, STAGGER=1, w=3), _mc('manycond-9-staggered', NW=9, STAGGER=1, w=8),
                    _mc('manycond-6-staggered-zigzag', NW=6, STAGGER=1, PRIOSET='{5,9,1,8,2,7,3,6,4}'), _mc('manycond-6', NW=6), _mc('manycond-6', NW=6, witness=True), _mc('manycond-7', NW=7, PRIOSET='{1,2,3,4,5,6,7,8,9}', w=3),
                    _mc('manycond-7-descending', NW=7, PRIOSET='{9,8,7,6,5,4,3,2,1}', w=3), _mc('manycond-9', NW=9, w=8),
                    _mc('manycond-4-symprio', NW=4, PRIOSYM=1, w=10), _mc('manycond-5-symprio', tier='thorough', NW=5, PRIOSYM=1, w=60)]
