#!/usr/bin/env python3-vt
# C18 - sorting, medians, quartiles, histograms, correlograms respect their definitions
import sys, os
sys.path.insert(0, os.path.join(os.path.dirname(os.path.abspath(__file__)), '..', 'lib'))
from checklib import Check, Family

fams = []
def fam(name, entry, n, tier='quick', witness=False, w=1):
    defs = ['N=%d' % n] + (['WITNESS=1'] if witness else [])
    fams.append(Family('%s-n%d%s' % (name, n, '-witness' if witness else ''), 'h_c18.c', entry, defs,
                       opts={'fp_traps': 1, 'time_limit': 900 if tier == 'quick' else 2400, 'max_viol': 400, 'query_timeout_ms': 60000}, tier=tier, witness=witness, weight=w, validate=2))
for n in (1, 2, 3, 4):
    fam('ds-sort', 'h_ds_sort', n, w=n * n)
fam('ds-sort', 'h_ds_sort', 3, witness=True)
for n in (1, 2, 3, 4):
    fam('ds-median', 'h_ds_median', n, w=n * n)
for n in (1, 2, 3):
    fam('ds-hist', 'h_ds_hist', n, w=n * 3)
for n in (1, 2):
    fam('ts-hist', 'h_ts_hist', n, w=n * n * 3)
fam('ts-hist', 'h_ts_hist', 3, tier='thorough', w=40)
fam('ds-hist-wide', 'h_ds_hist_wide', 2, w=2)
for n in (2, 3, 4):
    fam('ds-acf', 'h_ds_acf', n, w=n * 4)
for n in (1, 2, 3):
    fam('ts-sort', 'h_ts_sort', n, w=n * n * 2)
    fam('ts-median', 'h_ts_median', n, w=n * n * 2)
fam('ts-sort', 'h_ts_sort', 2, witness=True)
fam('ts-empty', 'h_ts_empty', 1)
fam('growth', 'h_growth', 1, w=3)
fam('ds-sort', 'h_ds_sort', 5, tier='thorough', w=40)
fam('ds-median', 'h_ds_median', 5, tier='thorough', w=40)
fam('ts-sort', 'h_ts_sort', 4, tier='thorough', w=60)
fam('ts-median', 'h_ts_median', 4, tier='thorough', w=60)
# ds-acf with 5 samples: 5 branch queries undecided (NRA): not claimed
fam('ds-hist', 'h_ds_hist', 4, tier='thorough', w=30)

c = Check('C18')
c.run_e1(fams, assumptions=['samples are exact reals in [-100, 100]; comparisons fork into the weak orders of the data', 'durations in [0, 10]',
                            'histogram families draw samples, limits and bin counts from candidate sets that include values on and outside the limits, constant data with auto-scaling and a range beyond 2^32',
                            'five-number summaries are read from the arguments the library passes to fprintf (engine stub); output formatting itself is outside'],
         bounds=['1-4 symbolic samples (thorough 5), lags <= 2, bins in {1,3,7}; array growth 1024 -> 1025 with two symbolic elements'])
c.finish(functions=['cmb_dataset.c (sort, copy, median, fivenum_print, histogram_*, ACF, PACF, add/expand)', 'cmb_timeseries.c (add, finalize, copy, sort_x, sort_t, median, fivenum_print, histogram_print)'],
         trusted=['clang-14 IR', 'E1 interpreter', 'z3 5.1'],
         explanation='real statistics code executed on symbolic reals; sort permutations, medians and bin counts are checked against their definitions on every weak order of the inputs')
