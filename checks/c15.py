#!/usr/bin/env python3-vt
# C15 - random streams depend on the seed alone and are the documented generator
import sys, os, re
sys.path.insert(0, os.path.join(os.path.dirname(os.path.abspath(__file__)), '..', 'lib'))
from checklib import Check, Family
import e2, build

c = Check('C15')
# ---- E2: stream identity from an arbitrary prior static state (CBMC, z3 back end)
src = os.path.join(build.VERIF, 'cbmc', 'c15_stream.c')
has_flip = 'flip_bitpos' in open(build.REPO + '/src/cmb_random.c').read()
build.codegen(c.d); build.native_lib(c.d, san=True)
e2h = e2.spawn(c.d, [dict(title='stream-identity-K3', src=src, defs=['K=3'] + (['HAVE_FLIP_STATICS=1'] if has_flip else []), unwind=21, backend=('--z3',), timeout=600, link_lib=True)])
# ---- H4: every mutable static of the generator unit is thread-local (syntactic, on freshly emitted IR)
import irparse
lib = build.lib_ir(c.d)
unit = irparse.parse(os.path.join(c.d, 'ir', 'cmb_random.ll'))
import re
_written = set()
_infn = False
for _line in open(os.path.join(c.d, 'ir', 'cmb_random.ll')):
    if _line.startswith('define '):
        _infn = True
        continue
    if _line.startswith('}'):
        _infn = False
        continue
    if _infn:
        for _g in re.findall(r'@[\w.$]+', _line):
            # anything but being the address operand of a plain load counts as a possible write
            if re.search(r'= load [^,]+, [^,]*\* ' + re.escape(_g) + r'(,|\s|$)', _line) and _line.count(_g) == 1:
                continue
            _written.add(_g)
# statics that no function of the unit ever writes are initialised data (e.g. the tolerance constant)
shared = [n for n, g in unit.globals.items() if not g['const'] and not g['external'] and not g['tls'] and not n.startswith('@.str') and n in _written]
viols = []
if shared:
    viols.append({'family': 'tls', 'kind': 'assert', 'label': 'mutable generator state shared between threads', 'msg': 'non-thread-local mutable statics in cmb_random.c: ' + ', '.join(shared),
                  'where': 'cmb_random.c', 'tags': {}, 'inputs': {}, 'replay': {'confirmed': True, 'note': 'syntactic fact about the emitted IR'}})
c.add_part({'part': 'thread-local-statics', 'engine': 'IR inspection', 'mutable_globals': [n for n, g in unit.globals.items() if not g['const'] and not g['external']], 'shared': shared},
           1, 0 if shared else 1, violations=viols, states=1, transitions=1)

fams = []
def fam(name, entry, tier='quick', witness=False, w=1, **kw):
    defs = ['%s=%s' % (k, v) for k, v in kw.items()] + (['WITNESS=1'] if witness else [])
    fams.append(Family(name + ('-witness' if witness else ''), 'h_c15.c', entry, defs, opts={'libm_uf': 1, 'time_limit': 900, 'query_timeout_ms': 30000},
                       tier=tier, witness=witness, weight=w, validate=2))
for p in (0, 1, 2, 3, 5):
    fam('stream-after-prior%d' % p, 'h_stream', PRIOR=p, K=4)
fam('stream-after-prior1', 'h_stream', PRIOR=1, K=4, witness=True)
for p in (1, 2, 3, 5):
    fam('history%d-raw-and-flips' % p, 'h_history', PRIOR=p, CALLS=0, w=2)
    fam('history%d-uniform-samplers' % p, 'h_history', PRIOR=p, CALLS=1, w=2)
fam('history2-raw-and-flips', 'h_history', PRIOR=2, CALLS=0, witness=True)
fam('stream-K16', 'h_stream', tier='thorough', PRIOR=2, K=16, w=4)
c.run_e1(fams, assumptions=['E2: all 2^64 seeds and all prior values of prng_state, splitmix_state, initial_seed and the flip cache (bit position <= 64)',
                            'E1: symbolic seed and prior seed; prior histories = raw draws, 1/22/43 flips, flips on the never-seeded generator, terminate; call sequences restricted to samplers without data-dependent branches (raw, flip, cmb_random, uniform, bernoulli)',
                            'libm functions are uninterpreted deterministic functions', 'hardware seeding (cmb_random_hwseed) and statistical quality are outside'],
         bounds=['K = 3 (E2) / 4 (E1, thorough 16) raw outputs after seeding; 20 warm-up rounds fully unwound'])
e2.collect(c, e2h)
c.finish(functions=['cmb_random_initialize', 'splitmix64', 'cmb_random_sfc64', 'cmb_random_flip', 'cmb_random_terminate', 'cmb_random (header)', 'cmb_random_uniform', 'cmb_random_bernoulli'],
         trusted=['cbmc 6.11 + z3 4.8 back end', 'independent reference implementation of splitmix64/sfc64 in the harness', 'E1 interpreter', 'z3 5.1'],
         explanation='equivalence with a reference generator for every seed and prior state (SMT), plus self-composition of seeded call sequences after different prior histories')
