#!/usr/bin/env python3-vt
# C20 - pool-allocated objects are distinct, aligned and stable at any population size
import sys, os
sys.path.insert(0, os.path.join(os.path.dirname(os.path.abspath(__file__)), '..', 'lib'))
from checklib import Check, Family

fams = []
def fam(name, entry, tier='quick', witness=False, w=1, page=64, **kw):
    defs = ['%s=%s' % (k, v) for k, v in kw.items()] + (['WITNESS=1'] if witness else [])
    fams.append(Family(name + ('-witness' if witness else ''), 'h_c20.c', entry, defs, opts={'pagesize': page, 'time_limit': 900 if tier == 'quick' else 2400},
                       tier=tier, witness=witness, weight=w, validate=3))
for sz, num in ((8, 1), (16, 3), (24, 2), (64, 1)):
    fam('history-sz%d-n%d' % (sz, num), 'h_dynamic', OBJSZ=sz, OBJNUM=num, LEN=7, w=3)
fam('history-sz16-n3', 'h_dynamic', OBJSZ=16, OBJNUM=3, LEN=7, witness=True)
fam('history-page4096', 'h_dynamic', page=4096, OBJSZ=16, OBJNUM=256, LEN=6)
fam('static-sz16', 'h_static', OBJSZ=16, OBJNUM=2, LEN=6, w=2)
fam('static-sz24', 'h_static', OBJSZ=24, OBJNUM=1, LEN=6, w=2)
fam('bulk-66-chunks-sz8', 'h_bulk', OBJSZ=8, OBJNUM=1, NBULK=530, w=4)
fam('bulk-66-chunks-sz8', 'h_bulk', OBJSZ=8, OBJNUM=1, NBULK=530, witness=True, w=4)
fam('bulk-70-chunks-sz24', 'h_bulk', OBJSZ=24, OBJNUM=2, NBULK=140, w=3)
fam('bulk-130-chunks-sz64', 'h_bulk', OBJSZ=64, OBJNUM=1, NBULK=131, w=3)
fam('history-long', 'h_dynamic', tier='thorough', OBJSZ=16, OBJNUM=2, LEN=11, w=20)
fam('static-long', 'h_static', tier='thorough', OBJSZ=8, OBJNUM=1, LEN=10, w=20)
fam('bulk-200-chunks', 'h_bulk', tier='thorough', OBJSZ=8, OBJNUM=1, NBULK=1610, w=10)

c = Check('C20')
c.run_e1(fams, assumptions=['page size stubbed to 64 bytes (4096 in one family): the code only needs a power of two > 8', 'allocation never fails',
                            'realloc is modelled as always moving the block (so a discarded result is a use after free)'],
         bounds=['alloc/free histories of 7 (thorough 11) operations with the freed object chosen by the solver, object sizes 8/16/24/64, 1-3 (256) objects per chunk',
                 'bulk: 131-530 (thorough 1610) simultaneously live objects = 66-130 (200) chunks, crossing the chunk-list growth at 64 and 128 chunks'])
c.finish(functions=['cmi_mempool.c (all)', 'cmi_mempool.h (alloc/free)', 'cmi_memutils.c'],
         trusted=['clang-14 IR of the tree', 'E1 interpreter and its allocator model (paths replayed natively)', 'z3 5.1'],
         explanation='real pool code executed symbolically; every access is bounds/liveness checked by the engine, stamps prove disjointness')
