#!/usr/bin/env python3-vt
# C02 - the hashheap as keyed priority queue under any operation history
import sys, os
sys.path.insert(0, os.path.join(os.path.dirname(os.path.abspath(__file__)), '..', 'lib'))
from checklib import Check, Family
import e2, build

fams = []
def fam(name, tier='quick', witness=False, w=2, tl=None, **kw):
    defs = ['%s=%s' % (k, v) for k, v in kw.items()] + (['WITNESS=1'] if witness else [])
    fams.append(Family(name + ('-witness' if witness else ''), 'h_c02.c', 'h_c02', defs,
                       opts={'pagesize': 256, 'max_viol': 400, 'time_limit': tl or (900 if tier == 'quick' else 2400)},
                       tier=tier, witness=witness, weight=w, validate=3))
ORDN = {0: 'event', 1: 'guard', 2: 'holder', 3: 'prioq', 4: 'default'}
for o in range(5):
    fam('all-ops-%s' % ORDN[o], PRE=3, LEN=1, ORD=o, OPSET=0, w=8 if o < 2 else 3)
fam('all-ops-default', PRE=3, LEN=1, ORD=4, OPSET=0, witness=True)
fam('enq-deq-rem-prioq', PRE=2, LEN=2, ORD=3, OPSET=1, w=3)
fam('pattern-holder', PRE=2, LEN=2, ORD=2, OPSET=3, w=6)
fam('pattern-cancel-7-event', PRE=7, LEN=2, ORD=0, OPSEQ='{7,6}', NSYM=1, HEXP=3, w=6)
fam('pattern-cancel-6-prioq-grow', PRE=6, LEN=2, ORD=3, OPSEQ='{7,5}', NSYM=2, HEXP=1, w=6)
fam('clear-after-growth', PRE=3, LEN=3, ORD=4, OPSEQ='{8,0,2}', HEXP=1, NSYM=1, w=4)
fam('clear-after-growth-event', PRE=9, LEN=3, ORD=0, OPSEQ='{8,0,4}', HEXP=3, NSYM=1, w=4)
fam('clear-after-growth-candkeys', PRE=5, LEN=3, ORD=4, OPSEQ='{8,0,0}', HEXP=1, NSYM=0, CALLERKEYS=2, w=4)
fam('candkeys-default', PRE=3, LEN=1, ORD=4, CALLERKEYS=2, OPSET=1, NSYM=1, w=14)
fam('candkeys-prioq-2ops', PRE=2, LEN=2, ORD=3, CALLERKEYS=2, OPSET=1, NSYM=0, w=8)
fam('symkeys-default', PRE=1, LEN=1, ORD=4, CALLERKEYS=1, OPSET=1, w=6)
fam('grow-2-4-8', PRE=5, LEN=1, ORD=4, OPSET=1, HEXP=1, NSYM=2, w=6)
fam('grow-8-16-event', PRE=9, LEN=1, ORD=0, OPSET=1, HEXP=3, NSYM=1, w=6)
fam('grow-4-8-guard-candkeys', PRE=5, LEN=1, ORD=1, OPSET=1, HEXP=2, NSYM=1, CALLERKEYS=2, w=10)
# thorough
for o in range(5):
    fam('2ops-%s' % ORDN[o], tier='thorough', PRE=2, LEN=2, ORD=o, OPSET=0, w=40)
    fam('reprio-%s' % ORDN[o], tier='thorough', PRE=3, LEN=2, ORD=o, OPSET=2, NSYM=1, w=40)
fam('symkeys-2', tier='thorough', PRE=2, LEN=1, ORD=4, CALLERKEYS=1, OPSET=1, w=60)
fam('candkeys-2ops-pre3', tier='thorough', PRE=3, LEN=2, ORD=3, CALLERKEYS=2, OPSET=1, NSYM=1, w=60)
fam('grow-16-32', tier='thorough', PRE=17, LEN=1, ORD=0, OPSET=1, HEXP=3, NSYM=1, w=30)

c = Check('C02')
src = os.path.join(build.VERIF, 'cbmc', 'order_algebra.c')
for u in ('GUARD', 'HOLDER', 'EVENT', 'PRIOQ', 'DEFAULT'):
    e2.run_harness(c, c.d, 'order-algebra-' + u.lower(), src, ['UNIT_' + u], unwind=2, link_lib=True)
c.run_e1(fams,
         assumptions=['sort keys are exact reals in [-1000, 1000] or full-range int64', 'page size stubbed to 256 bytes (any power of two > 8 satisfies the code)',
                      'allocation never fails', 'caller keys: non-zero, distinct from live keys (documented); quick tier draws them from a 7-element set built to collide (see h_c02.c), one family and the thorough tier use fully symbolic 64-bit keys'],
         bounds=['quick: <= 3 symbolic entries + 1-2 symbolic operations from the full operation set, initial exponents 1-3, growth 2->4->8->16 with 1-2 symbolic entries among concrete fillers',
                 'thorough: 2 operations on 2-3 pre-loaded entries, growth to 32 (3 operations and two symbolic entries under reprioritisation did not finish in 2400 s: not claimed)', 'capacities above 32 and the 2^31 limit are outside'])
c.finish(functions=['cmi_hashheap.c (all but cmi_hashheap_print)', 'heap_order_check', 'guard_queue_check', 'holder_queue_check', 'compare_func', 'default_order_check'],
         trusted=['clang-14 IR of the tree', 'E1 interpreter (paths replayed natively)', 'z3 5.1', 'cbmc 6.11 for the ordering algebra'],
         explanation='operation histories chosen structurally, sort keys/keys/payload patterns symbolic; structural walker after every operation')
