#!/usr/bin/env python3-vt
# C17 - summaries equal exact sample statistics; merging equals concatenation; weighted summary laws
import sys, os
sys.path.insert(0, os.path.join(os.path.dirname(os.path.abspath(__file__)), '..', 'lib'))
from checklib import Check, Family

fams = []
def fam(name, entry, tier='quick', witness=False, w=1, **kw):
    defs = ['%s=%s' % (k, v) for k, v in kw.items()] + (['WITNESS=1'] if witness else [])
    fams.append(Family(name + ('-witness' if witness else ''), 'h_c17.c', entry, defs,
                       opts={'exact_roots': 1, 'fp_traps': 1, 'time_limit': 900 if tier == 'quick' else 2400, 'query_timeout_ms': 60000},
                       tier=tier, witness=witness, weight=w, validate=2))
for k in (1, 2, 3, 4):
    fam('add-k%d' % k, 'h_add', K=k, w=k)
fam('add-k3', 'h_add', K=3, witness=True)
for k in (3, 4):
    fam('shape-k%d' % k, 'h_shape', K=k, w=8)
for k in (1, 2, 3, 5):
    fam('constant-k%d' % k, 'h_constant', K=k)
for k, k1 in ((0, 0), (1, 0), (1, 1), (2, 1), (3, 1), (3, 0), (4, 2), (4, 1)):
    fam('merge-%d+%d' % (k1, k - k1), 'h_merge', K=k, K1=k1, w=2 + k)
fam('merge-1+2', 'h_merge', K=3, K1=1, witness=True)
for k in (1, 2, 3):
    fam('weighted-k%d' % k, 'h_weighted', K=k, w=3)
    fam('unit-weights-k%d' % k, 'h_unit_weights', K=k)
fam('unit-weights-k4', 'h_unit_weights', K=4, w=2)
for k in (2, 3):
    fam('wscale-k%d' % k, 'h_scale', K=k, w=4)
for k, k1 in ((0, 0), (1, 0), (2, 1), (2, 0)):
    fam('wmerge-%d+%d' % (k1, k - k1), 'h_wmerge', K=k, K1=k1, w=6)
for k in (1, 2, 3):
    fam('summarize-k%d' % k, 'h_summarize', K=k, w=3)
# weighted central moment sums against their definitions (sum of w (x - mean)^k), symbolic samples and weights
fam('weighted-moment-sums-k2', 'h_weighted', K=2, MOMENTS=1, w=1)
fam('weighted-moment-sums-k3', 'h_weighted', K=3, MOMENTS=1, w=8)
# thorough
fam('add-k5', 'h_add', tier='thorough', K=5, w=30)
# shape-k5: z3 (NRA) leaves 36 branch queries undecided within the budget: not claimed
for k1 in (1, 2):
    fam('merge5-%d' % k1, 'h_merge', tier='thorough', K=5, K1=k1, w=40)
fam('wmerge-1+2', 'h_wmerge', tier='thorough', K=3, K1=1, w=60)
fam('weighted-k4', 'h_weighted', tier='thorough', K=4, w=30)
# wscale-k4: undecided queries (26 paths): not claimed

c = Check('C17')
c.run_e1(fams, assumptions=['doubles are exact reals: floating-point rounding, large common offsets and extreme magnitudes are outside the claim (the property says "up to rounding")',
                            'samples in [-1000, 1000], weights in [0, 100]', 'sqrt and pow(.,1.5) are exact algebraic roots (fresh r >= 0 with r^2 = v)'],
         bounds=['0-4 symbolic samples (thorough 5), every split listed under parts, merge into a third object or either operand, both orders'])
c.finish(functions=['cmb_datasummary.c (add, merge, skewness, kurtosis + header accessors)', 'cmb_wtdsummary.c (add, merge + accessors)', 'cmb_dataset_summarize', 'cmb_timeseries_summarize/finalize/add'],
         trusted=['clang-14 IR', 'E1 interpreter', 'z3 5.1 (nlsat) for the polynomial identities'],
         explanation='the library arithmetic is executed on symbolic reals and compared, as polynomial/rational identities, with the textbook definitions computed by the harness')
