#!/usr/bin/env python3-vt
import sys, os
sys.path.insert(0, os.path.dirname(os.path.abspath(__file__)))
sys.path.insert(0, os.path.join(os.path.dirname(os.path.abspath(__file__)), '..', 'lib'))
import simcheck, simfam
from checklib import Family
# long histories: the recorded series crosses the doubling of its arrays (1024 samples); durations must survive
simfam.FAMILIES['C14'] = simfam.FAMILIES['C14'] + [
    Family('history-array-growth', 'h_c18.c', 'h_growth', ['N=1'], opts={'time_limit': 900}, weight=3, validate=2)]
simcheck.run('C14')
