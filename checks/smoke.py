#!/usr/bin/env python3-vt
import sys, os
sys.path.insert(0, os.path.join(os.path.dirname(os.path.abspath(__file__)), '..', 'lib'))
from checklib import Check, Family
c = Check('SMOKE')
c.run_e1([Family('smoke', 't_smoke.c', 'h_smoke', opts={'pagesize': 256}), Family('proc', 't_proc.c', 'h_proc')])
c.finish(functions=['cmi_hashheap_*'])
