#!/usr/bin/env python3-vt
# C10 - valid programs never hit memory errors, undefined behaviour or library aborts.
# Every E1 path of every property checks every access, every arithmetic instruction and every release assert; this check
# runs the families that put containers on both sides of their growth thresholds while the library holds pointers into
# them, the empty-queue / empty-container cases, and a cross-section of the scenario families of the other properties.
import sys, os
sys.path.insert(0, os.path.join(os.path.dirname(os.path.abspath(__file__)), '..', 'lib'))
sys.path.insert(0, os.path.dirname(os.path.abspath(__file__)))
from checklib import Check, Family
import simfam

fams = []
def fam(name, harness, entry, tier='quick', witness=False, w=1, opts=None, **kw):
    defs = ['%s=%s' % (k, v) for k, v in kw.items()] + (['WITNESS=1'] if witness else [])
    o = {'time_limit': 900 if tier == 'quick' else 2400, 'max_viol': 400}
    o.update(opts or {})
    fams.append(Family(name + ('-witness' if witness else ''), harness, entry, defs, opts=o, tier=tier, witness=witness, weight=w, validate=2))
# event queue at capacity while the dispatcher holds the dequeued event and wakes its waiters
for nw, npend in ((2, 8), (3, 7), (9, 8), (2, 16), (17, 16)):
    fam('evgrow-w%d-p%d' % (nw, npend), 'h_c10.c', 'h_evgrow', NWAIT=nw, NPEND=npend, w=3)
    fam('evgrow-cancel-w%d-p%d' % (nw, npend), 'h_c10.c', 'h_evgrow_cancel', NWAIT=nw, NPEND=npend, w=2)
# waiting lists / holder lists / condition queue across 8 -> 16 (-> 32), processes ending while waited for
for nw in (3, 6, 9):
    fam('waitgrow-%d' % nw, 'h_c10.c', 'h_waitgrow', NWAIT=nw, w=nw)
fam('waitgrow-17', 'h_c10.c', 'h_waitgrow', tier='thorough', NWAIT=17, w=30)
for nw in (1, 9, 33):
    fam('manywaiters-%d' % nw, 'h_c10.c', 'h_manywaiters', NWAIT=nw, w=2)
fam('manywaiters-300', 'h_c10.c', 'h_manywaiters', NWAIT=300, w=6)      # more than one chunk (256) of waiter tags
# tag pools at the chunk-list growth, data arrays doubling, empty / single-sample containers
fam('pool-66-chunks', 'h_c20.c', 'h_bulk', opts={'pagesize': 64}, OBJSZ=8, OBJNUM=1, NBULK=530, w=4)
fam('pool-130-chunks', 'h_c20.c', 'h_bulk', opts={'pagesize': 64}, OBJSZ=64, OBJNUM=1, NBULK=131, w=3)
fam('data-growth', 'h_c18.c', 'h_growth', N=1, w=3)
fam('data-empty', 'h_c18.c', 'h_ts_empty', N=1)
fam('data-single-sample', 'h_c18.c', 'h_ds_median', N=1)
fam('data-copy-extend', 'h_c18.c', 'h_ts_sort', N=2, w=2)
fam('hist-edge-cases', 'h_c18.c', 'h_ds_hist', N=2, w=3)
fam('hist-wide', 'h_c18.c', 'h_ds_hist_wide', N=2)
fam('ts-hist-edge-cases', 'h_c18.c', 'h_ts_hist', N=2, w=3)
fam('summary-empty-merge', 'h_c17.c', 'h_merge', K=0, K1=0)
fam('summary-constant', 'h_c17.c', 'h_constant', opts={'exact_roots': 1}, K=3)
# a cross-section of process scenarios (interrupt with an otherwise empty queue, stops, preemptions, coincidences)
pick = {'C04': ['lonely-interrupt', 'holdz-chain', 'waite-interrupt-between', 'prio-change-while-granted', 'timers-clear-after-yield'],
        'C09': ['stop-self', 'stopped-with-resume-pending', 'stopped-in-waitp', 'ends-with-interrupt-pending'],
        'C07': ['pool-cross-preempt', 'pool-firstgrab-interrupted'], 'C13': ['cond-cancel-remove', 'cond-observe-subscribe-1'],
        'C12': ['oq-null-and-order', 'pq-reprio-cancel'], 'C11': ['buffer-full-range-unlimited-put-put']}
for prop, names in pick.items():
    for f in simfam.FAMILIES[prop]:
        if f.name in names and not f.witness:
            fams.append(f)

# orderly shut-down after a scenario: whoever is still suspended is stopped from the dispatcher, then every object is
# terminated and destroyed (TEARDOWN=1); with TEARDOWN=2 the statistics reports are printed first (concrete amounts)
tear = {'C05': ['waiter-stopped', 'holder-returns-holding'], 'C06': ['resource-2-waiters', 'oq-putters', 'pq-getters'], 'C07': ['pool-3-acquire', 'pool-topup-interrupted'],
        'C08': ['buffer-put-blocked', 'pq-both-ends', 'pool-leftovers'], 'C09': ['stopped-in-multi', 'restart-after-stop', 'stopped-in-condition'],
        'C11': ['buffer-get-interrupted'], 'C12': ['oq-duplicates-and-null', 'pq-reprio-cancel'], 'C13': ['cond-three-waiters', 'cond-observe-register-1', 'cond-observe-subscribe-1'],
        'C14': ['rec-drop-on-stop', 'rec-queues-buffer', 'rec-preempt'], 'C04': ['waitp-both-ends', 'waite-cancelled', 'two-timers-cancel']}
for prop, names in tear.items():
    for f in simfam.FAMILIES[prop]:
        if f.name in names and not f.witness and f.tier == 'quick':
            fams.append(Family(f.name + '-teardown', f.harness, f.entry, list(f.defs) + ['TEARDOWN=1'], opts=dict(f.opts), tier='quick', witness=False, weight=f.weight + 1, validate=2))
fams.append(simfam.fam('teardown-with-reports', ['ACQ OPUT HOLD REL OPUT', 'HOLD ACQ OGET HOLD'], REC=1, CONCRETE_D=1, TEARDOWN=2, POOLCAP=2, BUFCAP=2, QCAP=2, w=2))
fams.append(simfam.fam('teardown-with-reports-blocked', ['ACQ QPUT HOLD QPUT QPUT', 'HOLD ACQ HOLD', 'OGET'], REC=1, CONCRETE_D=1, TEARDOWN=2, POOLCAP=2, BUFCAP=2, QCAP=2, w=3))
fams.append(simfam.fam('teardown-with-reports', ['ACQ OPUT HOLD REL OPUT', 'HOLD ACQ OGET HOLD'], REC=1, CONCRETE_D=1, TEARDOWN=2, POOLCAP=2, BUFCAP=2, QCAP=2, witness=True, w=2))

# life cycle and reporting functions of the data containers, summaries, logger, names; reports of unrecorded objects
fam('api-dataset', 'h_api.c', 'a_dataset', N=3, w=2)
fam('api-dataset', 'h_api.c', 'a_dataset', N=3, witness=True, w=2)
fam('api-timeseries', 'h_api.c', 'a_timeseries', N=2, w=4)
fam('api-timeseries-3', 'h_api.c', 'a_timeseries', tier='thorough', N=3, w=30)
fam('api-logger-names', 'h_api.c', 'a_logger_names', w=1)
fam('api-reports-unrecorded', 'h_api.c', 'a_reports_unrecorded', w=1)
fam('api-stop-not-running', 'h_api.c', 'a_stop_not_running', w=1)
fam('api-copy-into-used-small', 'h_api.c', 'a_copy_into_used', NT=3, NS=2, NADD=4, w=1)
fam('api-copy-into-larger', 'h_api.c', 'a_copy_into_used', NT=1030, NS=2, NADD=1030, w=3)
fam('api-copy-into-smaller', 'h_api.c', 'a_copy_into_used', NT=2, NS=1030, NADD=1030, w=4)

c = Check('C10')
c.run_e1(fams, assumptions=['"valid program": every API call respects the argument conditions its header documents and its own entry asserts state; nothing is assumed about library-internal state',
                            'allocation never fails; stack overflow of the 64 KiB coroutine stacks, -DNASSERT builds and output formatting are outside',
                            'release configuration (-DNDEBUG): cmb_assert_debug compiled out, cmb_assert_release active'],
         bounds=['event queue 7-17 pending events with 2-17 waiters on the executing/cancelled event; 3-9 (thorough 17) x 3 processes queued on one resource, pool and condition; 1-300 waiters on an ending process; 131-530 pool objects; 1025 samples; orderly shut-down (stop, terminate, destroy; reports for two concrete scenarios) after 27 scenario families'])
c.finish(functions=['every library function reached by the listed families (see parts)'],
         trusted=['clang-14 IR', 'E1 interpreter: bounds, liveness, initialisation, alignment, signed overflow, shift, division and float->int range checks at every instruction', 'z3 5.1'],
         explanation='memory-safety / UB / abort checking is built into the symbolic executor and applies to every instruction of every explored path')
