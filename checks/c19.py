#!/usr/bin/env python3-vt
# C19 - an experiment runs every trial exactly once, isolated and schedule-independent
import sys, os
sys.path.insert(0, os.path.join(os.path.dirname(os.path.abspath(__file__)), '..', 'lib'))
from checklib import Check, Family
import build, irparse

c = Check('C19')
# thread-local inventory of the whole library, from freshly emitted IR: every mutable static that some function can write
# must be per thread, unless it belongs to the experiment dispatcher's own unit (src/cimba.c) or is a mutex
lib = build.lib_ir(c.d)
M = irparse.parse(lib)
mutable = {n: g for n, g in M.globals.items() if not g['const'] and not g['external'] and not n.startswith('@.str')}
shared = sorted(n for n, g in mutable.items() if not g['tls'])
# which of them can be written at run time, and where are they defined?  (per-unit IR emitted by build.lib_ir)
import re, glob
def_unit, written = {}, set()
for ll in sorted(glob.glob(os.path.join(c.d, 'ir', '*.ll'))):
    unit = os.path.basename(ll)[:-3]
    if unit == 'all':
        continue
    infn = False
    for line in open(ll):
        if line.startswith('define '):
            infn = True
            continue
        if line.startswith('}'):
            infn = False
            continue
        if not infn:
            m = re.match(r'(@[\w.$]+) = ', line)
            if m and ' external ' not in line and 'declare' not in line:
                def_unit.setdefault(m.group(1), unit)
            continue
        for g in re.findall(r'@[\w.$]+', line):
            # anything but being the address operand of a plain load counts as a possible write (store, call argument, address taken)
            if re.search(r'= load [^,]+, [^,]*\* ' + re.escape(g) + r'(,|\s|$)', line) and line.count(g) == 1:
                continue
            written.add(g)
def unit_of(n):
    return def_unit.get(n) or def_unit.get(n.split('.')[0]) or '?'
def is_mutex(n):
    return 'pthread_mutex' in str(mutable[n].get('type', '')) or n.endswith('_mutex')
# exempt: the experiment dispatcher's own unit (its globals are shared by design; their use is what the interleaving
# families below verify), mutexes, and statics that no function ever writes (initialised data)
bad = [n for n in shared if unit_of(n) != 'cimba' and not is_mutex(n) and (n in written or n.split('.')[0] in written)]
viols = []
if bad:
    viols.append({'family': 'tls-inventory', 'kind': 'assert', 'label': 'mutable library state shared between worker threads', 'msg': 'non-thread-local mutable globals: ' + ', '.join(bad),
                  'where': 'linked IR', 'tags': {}, 'inputs': {}, 'replay': {'confirmed': True, 'note': 'syntactic fact about the emitted IR'}})
c.add_part({'part': 'thread-local-inventory', 'engine': 'IR inspection', 'thread_local': sorted(n for n, g in mutable.items() if g['tls']), 'shared': shared, 'shared_by_unit': {n: unit_of(n) for n in shared}, 'never_written': [n for n in shared if n not in written], 'unexpected_shared': bad},
           1, 0 if bad else 1, violations=viols, states=1, transitions=1)

fams = []
def fam(name, entry, tier='quick', witness=False, w=1, opts=None, **kw):
    defs = ['%s=%s' % (k, v) for k, v in kw.items()] + (['WITNESS=1'] if witness else [])
    o = {'time_limit': 900 if tier == 'quick' else 2400, 'max_viol': 100, 'libm_uf': 1, 'fp_traps': 1}
    o.update(opts or {})
    fams.append(Family(name + ('-witness' if witness else ''), 'h_c19.c', entry, defs, opts=o, tier=tier, witness=witness, weight=w, validate=2))
for ntr, ncores, pre, pad in ((1, 1, 2, 1), (1, 2, 3, 1), (2, 2, 3, 1), (3, 2, 2, 3), (4, 2, 2, 1), (2, 3, 2, 5), (3, 3, 2, 1)):
    fam('dispatch-t%d-c%d-p%d' % (ntr, ncores, pre), 'h_dispatch', NTRIALS=ntr, PADWORDS=pad, opts={'nprocs': ncores, 'max_preempt': pre}, w=ntr * ncores)
fam('dispatch-t2-c2', 'h_dispatch', NTRIALS=2, witness=True, opts={'nprocs': 2, 'max_preempt': 1})
for ntr, ncores in ((1, 2), (3, 2)):
    fam('dispatch-perfn-t%d-c%d' % (ntr, ncores), 'h_dispatch_perfn', NTRIALS=ntr, opts={'nprocs': ncores, 'max_preempt': 2}, w=2)
for ntr, ncores in ((1, 2), (2, 2), (3, 1)):
    fam('dispatch-twice-t%d-c%d' % (ntr, ncores), 'h_dispatch_twice', NTRIALS=ntr, opts={'nprocs': ncores, 'max_preempt': 1}, w=3)
fam('isolation', 'h_isolation', w=6)
fam('isolation', 'h_isolation', witness=True, w=6)
fam('dispatch-t4-c3-p3', 'h_dispatch', tier='thorough', NTRIALS=4, opts={'nprocs': 3, 'max_preempt': 3, 'max_paths': 4000000}, w=40)
fam('dispatch-t6-c2-p3', 'h_dispatch', tier='thorough', NTRIALS=6, opts={'nprocs': 2, 'max_preempt': 3}, w=40)
c.run_e1(fams, assumptions=['sequentially consistent interleavings; a thread switch may occur after every atomic read-modify-write and after every plain access to a non-thread-local global; at most 2-3 preemptions per schedule (switches at thread end / join are free)',
                            'weak-memory behaviour of real hardware, OS scheduling, wall-clock effects and trial bodies that share user globals are outside',
                            'isolation is checked by self-composition on one thread: the same trial before and after a different trial that leaves other logger flags, clock, seed and a partly used bit cache behind'],
         bounds=['1-4 trials (thorough 6) on 1-3 worker threads, trial struct sizes 32/48/64 bytes'])
c.finish(functions=['cimba_run_experiment', 'worker_thread_func', 'cmi_cpu_cores', 'cmi_mempool_cleanup', 'the simulation stack reached by the representative trial'],
         trusted=['clang-14 IR', 'E1 interpreter with engine threads', 'z3 5.1'],
         explanation='all schedules of the worker threads within the preemption bound are explored as forked states; isolation by self-composition')
