#!/usr/bin/env python3-vt
# generic driver for the h_sim based properties: simcheck.py <PROP> [quick|thorough]
import sys, os
sys.path.insert(0, os.path.join(os.path.dirname(os.path.abspath(__file__)), '..', 'lib'))
sys.path.insert(0, os.path.dirname(os.path.abspath(__file__)))
from checklib import Check
import simfam

SIM_ASSUME = ['simulation times are exact reals in [0, 8] per duration (rounding of now+d outside the claim)',
              'allocation never fails', 'logging switched off (formatting stubbed)',
              'context switch = contract checked by the asm->SMT obligations of C03',
              'processes do not branch on signal values beyond the script']
SIM_FUNCS = ['cmb_process.c', 'cmb_event.c', 'cmb_resourceguard.c', 'cmb_resource.c', 'cmb_resourcepool.c', 'cmb_buffer.c',
             'cmb_objectqueue.c', 'cmb_priorityqueue.c', 'cmb_condition.c', 'cmi_hashheap.c', 'cmi_coroutine.c',
             'cmi_coroutine_context.c (context_init)', 'cmi_mempool.c', 'cmb_timeseries.c', 'cmb_dataset.c', 'cmb_wtdsummary.c']
TRUSTED = ['clang-14 IR of the tree', 'E1 interpreter semantics (sampled passing paths replayed natively on every run)', 'z3 5.1']


def run(prop, extra=None, bounds=()):
    sys.argv = [sys.argv[0]] + [a for a in sys.argv[1:] if a in ('quick', 'thorough')]
    c = Check(prop)
    if extra:
        extra(c)
    c.run_e1(simfam.FAMILIES[prop], assumptions=SIM_ASSUME,
             bounds=list(bounds) + ['<= 4 processes, <= 6 script steps each; families listed under parts with their scripts'])
    c.finish(functions=SIM_FUNCS, trusted=TRUSTED,
             explanation='path-wise symbolic execution of real process bodies through the real dispatcher; coincidences of timers, '
                         'interrupts, releases and grants are solver-chosen equalities of symbolic instants')


if __name__ == '__main__':
    run(sys.argv[1])
