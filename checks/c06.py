#!/usr/bin/env python3-vt
# C06 - waiters served by priority then waiting time: E2 (CBMC) algebra of the ordering function + E1 scenarios
import sys, os
sys.path.insert(0, os.path.dirname(os.path.abspath(__file__)))
sys.path.insert(0, os.path.join(os.path.dirname(os.path.abspath(__file__)), '..', 'lib'))
import simcheck, e2, build


def algebra(c):
    src = os.path.join(build.VERIF, 'cbmc', 'order_algebra.c')
    for u in ('GUARD', 'HOLDER', 'EVENT', 'PRIOQ', 'DEFAULT'):
        e2.run_harness(c, c.d, 'order-algebra-' + u.lower(), src, ['UNIT_' + u], unwind=2, link_lib=True)
    c.assumptions.append('E2: sort keys are never NaN; keys unique and non-zero (documented preconditions)')
    c.functions |= {'guard_queue_check', 'holder_queue_check', 'heap_order_check', 'compare_func', 'default_order_check'}


simcheck.run('C06', extra=algebra, bounds=['E2: all (double, int64, uint64) triples of three entries, no loop (unwind 2 with unwinding assertions)'])
