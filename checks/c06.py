#!/usr/bin/env python3-vt
import sys, os
sys.path.insert(0, os.path.dirname(os.path.abspath(__file__)))
import simcheck
simcheck.run('C06')
