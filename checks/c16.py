#!/usr/bin/env python3-vt
# C16 - every sampler stays inside its support (the distributional half of the property is not applicable, see DESIGN.md)
import sys, os
sys.path.insert(0, os.path.join(os.path.dirname(os.path.abspath(__file__)), '..', 'lib'))
from checklib import Check, Family
import e2, build

c = Check('C16')
# E2 (CBMC, IEEE bit-exact) runs in a child process while the E1 families are explored
src = os.path.join(build.VERIF, 'cbmc', 'c16_dice.c')
asrc = os.path.join(build.VERIF, 'cbmc', 'c16_alias.c')
specs = [dict(title='dice-bit-exact-2^31', src=src, defs=['LIMIT=2147483648LL'], unwind=65, timeout=600, link_lib=True),
         # the probability law implied by the alias table: every vector of three multiples of 0.05 within the accepted tolerance of one, in every order
         # uniform within [min, max] under IEEE rounding for every raw draw, bounds on a dyadic grid (multiples of 1/8 within +-16);
         # with arbitrary double bounds CBMC and z3's FP theory gave no verdict in 300-900 s
         dict(title='uniform-bit-exact-grid8', src=src, defs=['LIMIT=16LL', 'WITH_UNIFORM=1', 'UGRID=8', 'URANGE=16'], unwind=65, timeout=600, link_lib=True),
         dict(title='alias-law-n3-twentieths', src=asrc, defs=['NN=3', 'GRID=20'], unwind=5, timeout=900, link_lib=True)]
if c.tier == 'thorough':
    specs += [dict(title='dice-bit-exact-2^52', src=src, defs=['LIMIT=4503599627370496LL'], unwind=65, timeout=1800, backend=('--sat-solver', 'cadical'), link_lib=True),
              dict(title='alias-law-n2-thousandths', src=asrc, defs=['NN=2', 'GRID=1000'], unwind=5, timeout=1800, link_lib=True),
              dict(title='alias-law-n4-tenths', src=asrc, defs=['NN=4', 'GRID=10'], unwind=6, timeout=2400, link_lib=True)]
build.codegen(c.d); build.native_lib(c.d, san=True)       # shared by the replays of the child and the parent
e2h = e2.spawn(c.d, specs)

fams = []
def fam(name, entry, tier='quick', witness=False, w=1, opts=None, **kw):
    defs = ['%s=%s' % (k, v) for k, v in kw.items()] + (['WITNESS=1'] if witness else [])
    o = {'sym_draws': 1, 'libm_uf': 1, 'exact_roots': 1, 'fp_traps': 1, 'time_limit': 900 if tier == 'quick' else 2400, 'max_viol': 400, 'query_timeout_ms': 60000}
    o.update(opts or {})
    fams.append(Family(name + ('-witness' if witness else ''), 'h_c16.c', entry, defs, opts=o, tier=tier, witness=witness, weight=w, validate=2))
fam('uniform-bernoulli-flip', 'e_uniform')
fam('uniform-bernoulli-flip', 'e_uniform', witness=True)
fam('triangular', 'e_triangular', w=2)
for n in (1, 2, 3):
    fam('loaded-dice-n%d' % n, 'e_loaded_dice', NN=n, w=n)
    fam('alias-n%d' % n, 'e_alias', NN=n, w=n * 4)
fam('loaded-dice-n2', 'e_loaded_dice', NN=2, witness=True)
fam('pareto', 'e_pareto')
fam('binomial', 'e_binomial', w=2)
fam('geometric-boundary-p', 'e_geometric', opts={'enum_limit': 300, 'skip_functions': ['@cmi_random_exp_not_hot']}, w=4)
fam('negative-binomial-boundary-p', 'e_negbinomial', opts={'enum_limit': 300, 'skip_functions': ['@cmi_random_exp_not_hot']}, w=4)
# geometric with p = 0.5 (all 252 layers of the exponential hot path): undecided branch queries, not claimed
fam('exponential-hot-path', 'e_exponential', tier='thorough', opts={'enum_limit': 300, 'skip_functions': ['@cmi_random_exp_not_hot']}, w=4)
fam('loaded-dice-n4', 'e_loaded_dice', tier='thorough', NN=4, w=10)
# samplers built on the ziggurat hot paths, the base uniform variate and libm (log/exp/pow as uninterpreted functions with
# sign contracts; sqrt as an exact root): rejection loops cut after max_draws raw draws, ziggurat layers as listed
NOTHOT = ['@cmi_random_exp_not_hot', '@cmi_random_nor_not_hot']
def zfam(name, entry, md, layers=(0, 1, 128, 250), tier='quick', w=4, **kw):
    fam(name, entry, tier=tier, w=w, opts={'exact_roots': 0, 'int_links': 1, 'unknown_both': 1, 'query_timeout_ms': 10000, 'enum_limit': 300,
                                           'skip_functions': NOTHOT, 'max_draws': md, 'draw_low_bytes': list(layers)}, **kw)
zfam('logistic', 'e_logistic', 3, w=1)
zfam('std-gamma-any-shape', 'e_std_gamma', 2, SHAPE_SYM=1, w=8)
zfam('gamma-4-shapes', 'e_gamma', 3, SHAPE_SYM=0, w=4)
zfam('beta-2x2-shapes', 'e_beta', 6, layers=(1,), SHAPE_SYM=0, NSHAPE=2, w=40)
zfam('pert-3-triples', 'e_pert', 4, layers=(1, 250), SHAPE_SYM=0, w=20)
zfam('chi-squared', 'e_chisq_f_t', 3, layers=(1, 250), SHAPE_SYM=0, NSHAPE=2, WHICH=0, w=2)
zfam('F-dist', 'e_chisq_f_t', 6, layers=(1,), SHAPE_SYM=0, NSHAPE=2, WHICH=1, w=15)
zfam('t-dist', 'e_chisq_f_t', 5, layers=(1, 250), SHAPE_SYM=0, NSHAPE=2, WHICH=2, w=12)
zfam('exponential-erlang-hypo-hyper-weibull', 'e_exp_family', 3, w=2)
zfam('normal-lognormal-rayleigh-cauchy', 'e_normal_family', 3, w=3)
zfam('poisson', 'e_poisson', 4, w=4)
# the fall-back paths of the two ziggurat samplers themselves (alias sampling of the overhangs, reflections, tail iteration)
def nhfam(name, entry, layers, md=4, tier='quick', w=10):
    fam(name, entry, tier=tier, w=w, opts={'exact_roots': 0, 'unknown_both': 1, 'query_timeout_ms': 10000, 'enum_limit': 300, 'max_draws': md, 'draw_low_bytes': list(layers)})
SIX = (0, 1, 2, 128, 254, 255)
nhfam('exponential-fallback-path', 'e_exp_nothot', SIX, w=3)
nhfam('normal-fallback-path', 'e_nor_nothot', SIX, w=12)
L32 = tuple(sorted(set(list(range(0, 256, 16)) + [1, 2, 253, 254, 255])))
nhfam('exponential-fallback-path-21-layers', 'e_exp_nothot', L32, tier='thorough', w=40)
nhfam('normal-fallback-path-21-layers', 'e_nor_nothot', L32, tier='thorough', w=60)
ALL_LAYERS = tuple(range(0, 253, 4)) + (251, 252)      # every fourth layer and the top ones (all 253 did not finish in 2400 s)
zfam('exponential-family-65-layers', 'e_exp_family', 3, layers=ALL_LAYERS, tier='thorough', w=30)
zfam('normal-family-65-layers', 'e_normal_family', 3, layers=ALL_LAYERS, tier='thorough', w=40)
zfam('gamma-4-shapes-deeper', 'e_gamma', 5, SHAPE_SYM=0, tier='thorough', w=30)
# std_gamma with a symbolic shape beyond the first iteration: undecided nonlinear queries, not claimed
c.run_e1(fams, assumptions=['every call of cmb_random_sfc64 returns an arbitrary 64-bit value (a sound over-approximation of the stream for a support claim)',
                            'E1: parameters and arithmetic are exact reals (rounding outside); exp/log/pow are uninterpreted functions with sign/monotonicity contracts; E2: doubles bit-exact',
                            'geometric / negative binomial / exponential: only the ziggurat hot path (table look-up, about 98.9 % of the draws); paths entering cmi_random_exp_not_hot are cut', 'samplers built on the ziggurat (normal, lognormal, Rayleigh, Cauchy, exponential, Erlang, hypo-/hyperexponential, Weibull, Poisson, gamma, beta, PERT, chi-squared, F, t) and the logistic: hot paths of the ziggurat for the listed layers (low byte of the raw draw: quick 1-4 layers, thorough 65 of 253 for the one-draw samplers), rejection / redraw loops cut after max_draws raw draws per call chain (3-6), shape parameters: std_gamma any shape in [0.01, 4] for the first iteration, the others for 2-4 concrete shapes on both sides of 1 (0.125, 0.5, 1, 2.5), PERT for three concrete (min, mode, max) triples',
                            'NOT decided here: uniform under IEEE rounding for arbitrary double bounds (decided only for bounds on a dyadic grid: multiples of 1/8 within +-16; CBMC 300 s and z3 FP 900 s gave no verdict otherwise), triangular under IEEE rounding, the fall-back paths of the two ziggurat samplers beyond the listed index bytes (6 quick, 21 thorough, of 256) and 4 raw draws; the generated tables are read as constants (every look-up is bounds-checked, the geometry itself is not verified), floating-point underflow / overflow in the composed samplers (exact reals)',
                            'a branch whose feasibility the solver leaves undecided within 10 s is followed on both sides (every assertion on it is still decided, a violation still needs a model); such paths are counted as feasibility_undecided in the evidence parts',
                            'NOT applicable: "samples follow the stated distribution ... converge": a limit statement about infinitely many draws; the one exception decided here is the law implied by an alias table (a finite exact statement): E2, IEEE doubles, three probabilities on a grid of twentieths (thorough: two on thousandths, four on tenths)'],
         bounds=['dice: all a < b within +-2^31 (thorough 2^52) and every draw; loaded dice / alias tables with 1-3 (thorough 4) symbolic probabilities summing to one within 1e-3; geometric / negative binomial at p = 1 (thorough also 0.5)'])
e2.collect(c, e2h)
c.finish(functions=['cmb_random (header)', 'cmb_random_uniform', 'cmb_random_bernoulli', 'cmb_random_flip', 'cmb_random_triangular', 'cmb_random_dice', 'cmb_random_loaded_dice',
                    'cmb_random_alias_create/sample', 'cmb_random_pareto', 'cmb_random_binomial', 'cmb_random_geometric', 'cmb_random_negative_binomial', 'cmb_random_std_exponential (hot path)',
                    'cmb_random_std_normal (hot path)', 'cmi_random_exp_not_hot', 'cmi_random_nor_not_hot', 'cmb_random_normal', 'cmb_random_lognormal', 'cmb_random_logistic', 'cmb_random_cauchy', 'cmb_random_rayleigh', 'cmb_random_exponential', 'cmb_random_erlang',
                    'cmb_random_hypoexponential', 'cmb_random_hyperexponential', 'cmb_random_weibull', 'cmb_random_poisson', 'cmb_random_std_gamma', 'cmb_random_gamma', 'cmb_random_std_beta', 'cmb_random_beta',
                    'cmb_random_PERT', 'cmb_random_PERT_mod', 'cmb_random_chisquared', 'cmb_random_F_dist', 'cmb_random_std_t_dist', 'cmb_random_t_dist'],
         trusted=['cbmc 6.11 (SAT, IEEE semantics)', 'E1 interpreter', 'z3 5.1'],
         explanation='support of the samplers for every raw draw: the draw is a solver variable')
