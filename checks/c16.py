#!/usr/bin/env python3-vt
# C16 - every sampler stays inside its support (the distributional half of the property is not applicable, see DESIGN.md)
import sys, os
sys.path.insert(0, os.path.join(os.path.dirname(os.path.abspath(__file__)), '..', 'lib'))
from checklib import Check, Family
import e2, build

c = Check('C16')
# E2: floating point bit-exact, every raw draw an input
src = os.path.join(build.VERIF, 'cbmc', 'c16_dice.c')
e2.run_harness(c, c.d, 'dice-bit-exact-2^31', src, ['LIMIT=2147483648LL'], unwind=65, timeout=600)
if c.tier == 'thorough':
    e2.run_harness(c, c.d, 'dice-bit-exact-2^52', src, ['LIMIT=4503599627370496LL'], unwind=65, timeout=1800, backend=('--sat-solver', 'cadical'))

fams = []
def fam(name, entry, tier='quick', witness=False, w=1, opts=None, **kw):
    defs = ['%s=%s' % (k, v) for k, v in kw.items()] + (['WITNESS=1'] if witness else [])
    o = {'sym_draws': 1, 'libm_uf': 1, 'exact_roots': 1, 'time_limit': 420 if tier == 'quick' else 2400, 'max_viol': 400, 'query_timeout_ms': 60000}
    o.update(opts or {})
    fams.append(Family(name + ('-witness' if witness else ''), 'h_c16.c', entry, defs, opts=o, tier=tier, witness=witness, weight=w, validate=2))
fam('uniform-bernoulli-flip', 'e_uniform')
fam('uniform-bernoulli-flip', 'e_uniform', witness=True)
fam('triangular', 'e_triangular', w=2)
for n in (1, 2, 3):
    fam('loaded-dice-n%d' % n, 'e_loaded_dice', NN=n, w=n)
    fam('alias-n%d' % n, 'e_alias', NN=n, w=n * 4)
fam('loaded-dice-n2', 'e_loaded_dice', NN=2, witness=True)
fam('pareto', 'e_pareto')
fam('binomial', 'e_binomial', w=2)
fam('geometric-boundary-p', 'e_geometric', opts={'enum_limit': 300, 'skip_functions': ['@cmi_random_exp_not_hot']}, w=4)
fam('negative-binomial-boundary-p', 'e_negbinomial', opts={'enum_limit': 300, 'skip_functions': ['@cmi_random_exp_not_hot']}, w=4)
fam('geometric-p-half', 'e_geometric', tier='thorough', opts={'enum_limit': 300, 'skip_functions': ['@cmi_random_exp_not_hot']}, NPS=2, w=30)
fam('exponential-hot-path', 'e_exponential', tier='thorough', opts={'enum_limit': 300, 'skip_functions': ['@cmi_random_exp_not_hot']}, w=4)
fam('loaded-dice-n4', 'e_loaded_dice', tier='thorough', NN=4, w=10)
c.run_e1(fams, assumptions=['every call of cmb_random_sfc64 returns an arbitrary 64-bit value (a sound over-approximation of the stream for a support claim)',
                            'E1: parameters and arithmetic are exact reals (rounding outside); exp/log/pow are uninterpreted functions with sign/monotonicity contracts; E2: doubles bit-exact',
                            'geometric / negative binomial / exponential: only the ziggurat hot path (table look-up, about 98.9 % of the draws); paths entering cmi_random_exp_not_hot are cut', 'NOT decided here: uniform/triangular under IEEE rounding (CBMC: no verdict in 300 s), the ziggurat rejection loops of the exponential and normal samplers and everything built on them (gamma, beta, PERT, Weibull, chi-squared, F, t, Rayleigh, lognormal, Erlang, hypo-/hyperexponential, Poisson)',
                            'NOT applicable: "samples follow the stated distribution ... converge": a limit statement about infinitely many draws'],
         bounds=['dice: all a < b within +-2^31 (thorough 2^52) and every draw; loaded dice / alias tables with 1-3 (thorough 4) symbolic probabilities summing to one within 1e-3; geometric / negative binomial at p = 1 (thorough also 0.5)'])
c.finish(functions=['cmb_random (header)', 'cmb_random_uniform', 'cmb_random_bernoulli', 'cmb_random_flip', 'cmb_random_triangular', 'cmb_random_dice', 'cmb_random_loaded_dice',
                    'cmb_random_alias_create/sample', 'cmb_random_pareto', 'cmb_random_binomial', 'cmb_random_geometric', 'cmb_random_negative_binomial', 'cmb_random_std_exponential (hot path)'],
         trusted=['cbmc 6.11 (SAT, IEEE semantics)', 'E1 interpreter', 'z3 5.1'],
         explanation='support of the samplers for every raw draw: the draw is a solver variable')
