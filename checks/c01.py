#!/usr/bin/env python3-vt
# C01 - events run exactly once in (time, priority, FIFO) order; clock monotone; handle queries agree
import sys, os
sys.path.insert(0, os.path.join(os.path.dirname(os.path.abspath(__file__)), '..', 'lib'))
from checklib import Check, Family

OPN = {0: 'none', 1: 'cancel', 2: 'resched', 3: 'reprio', 4: 'pcancel', 5: 'schedule', 6: 'clear', 7: 'cancel-absent'}
fams = []
def fam(nev, o1, o2, fill=0, tier='quick', witness=False, w=1, o1b=0, tie=0):
    defs = ['NEV=%d' % nev, 'OP1=%d' % o1, 'OP2=%d' % o2, 'FILL=%d' % fill, 'OP1B=%d' % o1b, 'FILLTIE=%d' % tie] + (['WITNESS=1'] if witness else [])
    fams.append(Family('n%d-%s%s-%s%s%s%s' % (nev, OPN[o1], '+' + OPN[o1b] if o1b else '', OPN[o2], '-fill%d' % fill if fill else '', {0: '', 1: '-tie', 2: '-times5mod7', 3: '-timespattern'}[tie], '-witness' if witness else ''),
                       'h_c01.c', 'h_c01', defs, tier=tier, witness=witness, weight=w, validate=4))
fam(3, 0, 0)
fam(3, 0, 0, witness=True)
for o in (1, 2, 3, 4, 5, 6):
    fam(3, o, 0, w=3)
for o in (1, 2, 3, 4, 5, 6, 7):
    fam(3, 0, o, w=3)
# growth 8 -> 16 while events are pending and while an action schedules
fam(2, 0, 5, fill=6, w=2)
fam(2, 5, 2, fill=6, w=2)
fam(2, 2, 3, fill=7, w=2)
# removal / re-ranking deep inside a heap of same-instant events (the moved last entry may have to rise)
fam(1, 1, 0, fill=6, tie=1, w=3)
fam(2, 1, 0, fill=5, tie=1, w=6)
fam(1, 3, 0, fill=6, tie=1, w=4)
fam(1, 0, 1, fill=5, tie=1, w=4)
fam(1, 4, 0, fill=6, tie=1, w=4)
# pattern cancel (before the run and from inside an action) over fillers with patterned, unsorted times: several matches,
# parents and children among them, the moved last entry may rise past entries not yet visited
for tie in (2, 3):
    fam(1, 4, 0, fill=7, tie=tie, w=4)
    fam(1, 0, 4, fill=7, tie=tie, w=4)
fam(1, 4, 0, fill=9, tie=3, w=5)
# clear after the queue has grown, then schedule again: old handles must be gone
fam(2, 6, 0, fill=7, o1b=5, w=2)
fam(2, 6, 1, fill=9, o1b=5, w=2)
# thorough: four symbolic events, pairs of mutations, growth to 32
fam(4, 0, 0, tier='thorough', w=5)
for o1 in (1, 2, 3, 5):
    for o2 in (1, 2, 3, 4, 5, 6):
        fam(3, o1, o2, tier='thorough', w=20)
for o in (2, 3, 5):
    fam(4, o, 0, tier='thorough', w=30)
    fam(4, 0, o, tier='thorough', w=30)
fam(2, 5, 5, fill=15, tier='thorough', w=4)
fam(3, 0, 2, fill=14, tier='thorough', w=8)

c = Check('C01')
c.run_e1(fams,
         assumptions=['times are exact reals (rounding/overflow of now+d outside the claim); |t| <= 1000 offsets',
                      'allocation never fails', 'logging switched off (formatting functions stubbed)'],
         bounds=['quick: 3 symbolic events (time, priority over all of int64), one mutation before the run or inside the first action; 8->16 growth with 2 symbolic events',
                 'thorough: 4 symbolic events; two mutations; growth to 32'])
c.finish(functions=['cmb_event.c (all)', 'cmi_hashheap.c (all reached)', 'cmi_memutils.c'],
         trusted=['clang-14 IR of the tree', 'E1 interpreter semantics (validated per run against native execution of sampled paths)', 'z3 5.1'],
         explanation='path-wise symbolic execution of the real event queue; every feasible ordering/tie pattern of the symbolic times and priorities is a solver-decided path')
