#!/usr/bin/env python3
# regenerate /verif/MANIFEST.json from the table below; properties without an entry in CHECKS are listed
# under not_applicable with the reason in NA.
import json, os
V = os.path.dirname(os.path.dirname(os.path.abspath(__file__)))
props = [json.loads(l)['id'] for l in open(V + '/properties.jsonl')]
E1NOTE = ('trusted: clang-14 IR of the tree as the program text, the E1 interpreter (re-validated on every run by replaying '
          'sampled solver models of passing paths against a native gcc+nasm build and comparing the observation trace), z3; '
          'assumed: exact real arithmetic for simulation times, allocation never fails, logging off, the coroutine switch '
          'contract established by the asm->SMT check of C03')
CHECKS = {
 'C01': dict(engine='E1 symex', technique='path-wise symbolic execution of the real cmb_event.c/cmi_hashheap.c IR with z3 (BV64 priorities, real times)',
             text='Every feasible ordering and tie pattern of 3 (thorough 4) events with symbolic time and full-range int64 priority, with one (two) symbolic mutation(s) issued before the run or from inside a running action, is explored as a solver-decided path; the oracle is a shadow of the pending set updated only from API calls. Bounded model checking: nothing is claimed beyond the stated event counts, growth steps (8->16, thorough ->32) and real-valued times.',
             ref='DESIGN.md section 4 C01', note=E1NOTE),
}
NA = {}
DEFAULT_NA = 'check under construction in this session; see DESIGN.md'
checks = []
for p in props:
    if p in CHECKS:
        c = CHECKS[p]
        low = p.lower()
        checks.append({
            'property_id': p,
            'quick_cmd': 'VERIF_TIER=quick python3-vt checks/%s.py quick' % low,
            'thorough_cmd': 'VERIF_TIER=thorough python3-vt checks/%s.py thorough' % low,
            'evidence_file': 'evidence/%s.json' % p,
            'replay_cmd_template': 'python3-vt tools/replay.py {path}',
            'engine': c['engine'],
            'level_claimed': {'category': 'model_checking', 'text': c['text'], 'design_ref': c['ref']},
            'level_note': c['note'],
            'technique': c['technique'],
        })
m = {
 'version': 1,
 'setup_cmd': 'python3-vt tools/setup_check.py',
 'hooks': {'guard': 'AMBONVIK_CIMBA_VERIF',
           'enable': 'the checks compile /repo\'s sources themselves with -DAMBONVIK_CIMBA_VERIF (clang-14 -> IR for E1, goto-cc for E2, gcc+nasm for native replay); no hook is currently needed in the sources',
           'baseline_off_cmd': 'meson test -C /repo/_build',
           'source_commits': [], 'add_only': True},
 'engines': [
  {'name': 'E1 symex', 'path': 'lib/symex.py', 'serves_properties': sorted(p for p in CHECKS if 'E1' in CHECKS[p]['engine']),
   'kind_free_text': 'own KLEE-style symbolic executor over clang-14 IR of the real sources, z3 back end, native replay of models'},
 ],
 'checks': checks,
 'notes': 'All checks rebuild IR / goto binaries / native replay programs from /repo\'s working tree into a scratch directory under /var/tmp and remove it on exit. VERIF_REPO overrides the tree location (used to run the checks against seeded changes in a scratch worktree).',
 'not_applicable': [{'property_id': p, 'reason': NA.get(p, DEFAULT_NA)} for p in props if p not in CHECKS],
}
json.dump(m, open(V + '/MANIFEST.json', 'w'), indent=1)
print('checks:', [c['property_id'] for c in checks])
