#!/usr/bin/env python3
# regenerate /verif/MANIFEST.json from the table below; properties without an entry in CHECKS are listed
# under not_applicable with the reason in NA.
import json, os
V = os.path.dirname(os.path.dirname(os.path.abspath(__file__)))
props = [json.loads(l)['id'] for l in open(V + '/properties.jsonl')]
E1NOTE = ('trusted: clang-14 IR of the tree as the program text, the E1 interpreter (re-validated on every run by replaying '
          'sampled solver models of passing paths against a native gcc+nasm build and comparing the observation trace), z3; '
          'assumed: exact real arithmetic for simulation times, allocation never fails, logging off, the coroutine switch '
          'contract established by the asm->SMT check of C03')
SIMNOTE = E1NOTE + '; bounded: <= 4 processes with <= 6 scripted operations each, families listed in evidence'
def sim(text, ref):
    return dict(engine='E1 symex', technique='path-wise symbolic execution of real process coroutines through the real dispatcher (clang IR + z3); same-instant coincidences are solver-chosen equalities of symbolic times',
                text=text, ref=ref, note=SIMNOTE)
CHECKS = {
 'C01': dict(engine='E1 symex', technique='path-wise symbolic execution of the real cmb_event.c/cmi_hashheap.c IR with z3 (BV64 priorities, real times)',
             text='Every feasible ordering and tie pattern of 3 (thorough 4) events with symbolic time and full-range int64 priority, with one (two) symbolic mutation(s) issued before the run or from inside a running action, is explored as a solver-decided path; the oracle is a shadow of the pending set updated only from API calls. Bounded model checking: nothing is claimed beyond the stated event counts, growth steps (8->16, thorough ->32) and real-valued times.',
             ref='DESIGN.md section 4 C01', note=E1NOTE),
 'C02': dict(engine='E1 symex + E2 cbmc', technique='symbolic execution of cmi_hashheap.c over operation histories with symbolic sort keys/keys (z3) + CBMC algebra of the five ordering functions',
             text='Histories of 3-9 enqueues plus 1-2 (thorough 3) operations from the full operation set, each of the five real ordering functions, initial exponents 1-3 across the 2->4->8->16 doublings (thorough 32), automatically issued, colliding candidate and fully symbolic caller keys; shadow map + structural walker after every operation. CBMC shows each ordering function is the documented strict order for all key triples.',
             ref='DESIGN.md section 4 C02', note=E1NOTE + '; page size stubbed to 256; cbmc 6.11 trusted for the algebra part'),
 'C03': dict(engine='E3 asm->SMT + E1 symex', technique='bit-precise SMT semantics of the assembled context switch (z3 validity queries over all register/flag/MXCSR/memory contents) + symbolic execution of the coroutine bookkeeping',
             text='The nasm-assembled switch and trampoline are translated instruction by instruction into z3 terms; round trip (callee-saved registers, MXCSR, user-visible RFLAGS, stack pointer, return address, handed-over value), frame condition and the initial frame written by the real cmi_coroutine_context_init (symbolically executed) are validity queries with no bound on the machine state. Coroutine scripts (start/yield/resume/transfer/exit/return/stop/restart, nested yields, symbolic messages) check message delivery, caller/parent bookkeeping and that locals survive.',
             ref='DESIGN.md section 4 C03', note='trusted: nasm+objdump disassembly, the hand-written semantics of the instruction forms that occur (any other form gives no verdict, exit 2), popf at CPL 3, z3; x87 control word, AVX state, signal mask and stack exhaustion are outside; E1 part: ' + E1NOTE),
 'C04': sim('Scripts combining hold, timers (add/cancel/clear), interrupts, stops, wait-for-process/event, yield/resume and waits on resource, pool, buffer, queues and condition; a ledger of issued notifications decides that every non-success return is exactly one undelivered notification at its instant, that success of hold means start+d, that nothing of a finished wait stays queued, and that nobody is left suspended at quiescence.', 'DESIGN.md section 4 C04'),
 'C05': sim('Acquire/hold/release/preempt scripts of 3-4 processes with symbolic priorities and hold times (0 allowed), waiters that time out, are interrupted or stopped, holders that exit, return or are stopped; shadow owner vs. every successful return and the holder/in-use/available queries after every event.', 'DESIGN.md section 4 C05'),
 'C06': dict(engine='E2 cbmc + E1 symex', technique='CBMC: ordering function = documented lexicographic strict order for all triples; E1: symbolic priorities/arrival instants over waiter scripts',
             text='The waiting-list ordering function is proved (bounded, loop-free) to be the documented strict total order; scenarios with 2-3 (thorough 4) waiters on a resource, object queue (both ends) and priority queue with symbolic priorities, arrival ties, priority changes and departures check that each served waiter is the best among those that were already waiting.',
             ref='DESIGN.md section 4 C06', note=SIMNOTE + '; pools/buffers (partial fulfilment) and conditions are not covered by the service-order oracle'),
 'C07': sim('Pool scripts with symbolic amounts, capacity 3-4 or symbolic in [1,4], priorities symbolic or fixed, preempts, partial fulfilment, interrupts/timeouts/preemptions/stops in the middle of multi-step acquisitions; conservation (in_use = sum of holdings <= capacity) after every event, exact accounting on every return, preemption only from strictly lower priority.', 'DESIGN.md section 4 C07'),
 'C08': sim('Quiescence oracle over every guard-based object: after the queue has drained nobody is blocked on a free resource, a pool with units, a buffer/queue with content (getter) or space (putter); families aim at grants coinciding with timeout, interrupt and stop of the granted waiter, roll-backs, drops on exit/stop, leftovers and priority-queue cancellation.', 'DESIGN.md section 4 C08'),
 'C09': sim('A victim holding a resource and pool units, with timers armed and waiters registered, ends by return, exit, stop by another process or stop by itself while running, holding, or blocked in hold / guard / wait_process / wait_event / condition / buffer; waiters resumed once with the right code, holdings freed and offered on, no event remains for it, exit value as given.', 'DESIGN.md section 4 C09'),
 'C11': sim('Producers/consumers with symbolic amounts (small range in most families, full uint64 range in dedicated ones), capacity fixed, symbolic or unlimited, interrupts/timeouts/stops between partial transfers; level = put - got including the parts moved by still-blocked callers, reported partial amounts exact.', 'DESIGN.md section 4 C11'),
 'C12': sim('Object queue (incl. a NULL object) and priority queue with symbolic priorities, capacities 1, 2, symbolic, unlimited, blocking on both ends, interrupts/stops of blocked producers/consumers, reprioritise/cancel by handle and position queries; shadow FIFO / (priority, put order) decides every delivery.', 'DESIGN.md section 4 C12'),
 'C13': sim('2-3 (thorough 4) condition waiters with symbolic thresholds and priorities, explicit signals after symbolic state changes, forwarded signals from an observed resource through both registration routes, cancel/remove by the public names, timeouts and interrupts of waiters; resumed with success exactly when the predicate was found true at a signal of that instant.', 'DESIGN.md section 4 C13'),
 'C14': sim('All object kinds with recording on: after every event the latest recorded sample must equal the true state (public query) with a time not in the future, sample times non-decreasing, the step function at the end of every instant equals the observed state, and (families with durations chosen from {0,1,2}) the time-weighted mean from cmb_timeseries_summarize equals the integral of the observed trajectory.', 'DESIGN.md section 4 C14'),
}
CHECKS.update({
 'C15': dict(engine='E2 cbmc + E1 symex', technique='CBMC (z3 back end): equivalence of cmb_random_initialize+sfc64 with an independent reference for all seeds and all prior static state; E1: self-composition of seeded call sequences after different prior histories',
             text='For every 64-bit seed and every prior value of the generator statics (incl. the flip bit cache) the first 3 raw outputs and the first flips after seeding equal an independently written splitmix64/sfc64 reference; with E1 the same (4, thorough 16 outputs) plus self-composition: a fixed call sequence (raw, flips, uniform, bernoulli) gives identical terms after different prior histories; all mutable statics of the unit are thread-local in the emitted IR.',
             ref='DESIGN.md section 4 C15', note='trusted: cbmc 6.11 with z3, E1, the reference implementation; samplers with data-dependent branches or ziggurat table look-ups on symbolic draws are outside the symbolic part; hardware seeding outside'),
 'C17': dict(engine='E1 symex (reals)', technique='the summary arithmetic executed on symbolic reals and compared with the textbook definitions as polynomial identities (z3 nlsat)',
             text='0-4 (thorough 5) symbolic samples: count/min/max/mean/central moment sums/variance/skewness/kurtosis equal their definitions after every add; merge(A,B) = summary(A||B) for every split incl. empty parts, both orders, into a third object or either operand; weighted mean exact, zero weights ignored, unit weights = unweighted, scale invariance of the mean (variance/kurtosis: known finding); dataset/timeseries summarize.',
             ref='DESIGN.md section 4 C17', note='exact reals: rounding, common offsets and extreme magnitudes are outside by construction; sqrt/pow as algebraic roots; ' + E1NOTE),
 'C18': dict(engine='E1 symex (reals)', technique='symbolic execution of the sort/median/histogram/ACF code over symbolic samples; comparisons fork into the weak orders of the data',
             text='1-4 (thorough 5) symbolic samples and durations: sorted output ascending and a permutation with (x,t,w) kept together, copies exact and extendable, median and weighted median against the half-weight definition, five-number summaries (captured fprintf arguments) ordered and in range, histogram totals, ACF[0]=1 and shift/scale invariance, PACF[1]=ACF[1], array growth 1024->1025.',
             ref='DESIGN.md section 4 C18', note='histogram inputs from candidate sets; output formatting outside; ' + E1NOTE),
 'C20': dict(engine='E1 symex', technique='symbolic execution of cmi_mempool.c over alloc/free histories with solver-chosen frees; engine-level bounds/liveness checking of every access',
             text='Histories of 7 (thorough 11) alloc/free operations on dynamic and statically initialised pools for object sizes 8/16/24/64, plus bulk populations of 131-530 (thorough 1610) live stamped objects crossing the chunk-list growth at 64 and 128 chunks: alignment, disjointness, contents intact, no object handed out twice, cleanup.',
             ref='DESIGN.md section 4 C20', note='page size stubbed to 64 bytes; realloc always moves; ' + E1NOTE),
})
CHECKS.update({
 'C10': dict(engine='E1 symex', technique='memory-safety / UB / abort checking built into the symbolic executor, run over growth-threshold and empty-container families',
             text='Every load/store is bounds-, liveness-, initialisation- and alignment-checked, every signed arithmetic, shift, division and float->int conversion is checked for undefinedness, and every library release assert / abort is a violation when the harness respected the documented preconditions. Families: event queue at capacity (7-17 pending) while the dispatcher wakes 2-17 waiters of the executing or cancelled event, 9-27 processes queued on one resource / pool / condition, 1-300 waiters of an ending process, 66-130 pool chunks, data arrays at 1024->1025, empty and single-sample containers, a cross-section of the scenario families of the other properties, orderly shut-down after 27 of them (stop, terminate, destroy, reports), and the life cycle / reporting functions of datasets, time series, summaries, logger and names (harness/h_api.c).',
             ref='DESIGN.md section 4 C10', note=E1NOTE + '; allocation failure, stack overflow of coroutine stacks, -DNASSERT builds and output formatting are outside; sanitizer builds are used only to confirm counterexamples'),
 'C16': dict(engine='E1 symex + E2 cbmc', technique='every raw generator output is a fresh solver variable; support assertions and the floating-point traps of experiments decided by z3 (exact reals); dice, uniform on a grid and the alias-table law by CBMC with IEEE semantics',
             text='SUPPORT half of the property only: uniform, Bernoulli, flip, triangular, dice (bit-exact, all a<b within +-2^31 and every draw), loaded dice and alias tables (1-3 symbolic probabilities within the accepted tolerance), Pareto, binomial, geometric and negative binomial at p = 1; on the ziggurat hot paths for listed layers, 2-4 concrete shape values on both sides of 1 (std_gamma: any shape in [0.01, 4], first iteration) and 3-6 raw draws per call chain: logistic, normal, lognormal, Rayleigh, Cauchy, exponential, Erlang, hypo-/hyperexponential, Weibull, Poisson, gamma, beta, PERT, chi-squared, F, t. The distributional half (moments / frequencies converge) is not applicable to bounded solver-based checking; the ziggurat fall-back paths beyond 6 (thorough 21) index bytes and 4 draws, the geometry of the generated tables, IEEE rounding of uniform/triangular and floating-point under-/overflow are not decided.',
             ref='DESIGN.md section 4 C16', note='over-approximation: any 64-bit value may be drawn; exact reals except the CBMC dice harness; libm as uninterpreted functions with sign/monotonicity contracts; ' + E1NOTE),
 'C19': dict(engine='E1 symex (engine threads)', technique='symbolic execution of cimba_run_experiment and worker_thread_func with interpreter threads; every schedule within a preemption bound is a forked state; isolation by self-composition',
             text='1-4 trials (thorough 6) on 1-3 worker threads with a switch possible after every atomic operation and every plain access to a shared global (<= 2-3 preemptions): every trial runs exactly once with its own element and the call returns after all of them, also with per-trial functions; a representative trial (event queue, processes, resource, raw draws, flips, logger flags) gives identical results before and after a different trial on the same thread; the inventory of non-thread-local mutable globals of the linked library is checked against the dispatcher globals.',
             ref='DESIGN.md section 4 C19', note='sequential consistency; weak memory, OS scheduling and trial bodies sharing user globals are outside; ' + E1NOTE),
})
NA = {}
DEFAULT_NA = 'check under construction in this session; see DESIGN.md'
checks = []
for p in props:
    if p in CHECKS:
        c = CHECKS[p]
        low = p.lower()
        checks.append({
            'property_id': p,
            'quick_cmd': 'VERIF_TIER=quick python3-vt checks/%s.py quick' % low,
            'thorough_cmd': 'VERIF_TIER=thorough python3-vt checks/%s.py thorough' % low,
            'evidence_file': 'evidence/%s.json' % p,
            'replay_cmd_template': 'python3-vt tools/replay.py {path}',
            'engine': c['engine'],
            'level_claimed': {'category': 'model_checking', 'text': c['text'], 'design_ref': c['ref']},
            'level_note': c['note'],
            'technique': c['technique'],
        })
m = {
 'version': 1,
 'setup_cmd': 'python3-vt tools/setup_check.py',
 'hooks': {'guard': 'AMBONVIK_CIMBA_VERIF',
           'enable': 'the checks compile /repo\'s sources themselves with -DAMBONVIK_CIMBA_VERIF (clang-14 -> IR for E1, goto-cc for E2, gcc+nasm for native replay); no hook is currently needed in the sources',
           'baseline_off_cmd': 'meson test -C /repo/_build',
           'source_commits': [], 'add_only': True},
 'engines': [
  {'name': 'E1 symex', 'path': 'lib/symex.py', 'serves_properties': sorted(p for p in CHECKS if 'E1' in CHECKS[p]['engine']),
   'kind_free_text': 'own KLEE-style symbolic executor over clang-14 IR of the real sources, z3 back end, native replay of models'},
  {'name': 'E3 asm-smt', 'path': 'lib/e3.py', 'serves_properties': ['C03'], 'kind_free_text': 'nasm object -> objdump -> z3 semantics of the instruction forms that occur'},
  {'name': 'E2 cbmc', 'path': 'lib/e2.py', 'serves_properties': sorted(p for p in CHECKS if 'E2' in CHECKS[p]['engine']),
   'kind_free_text': 'CBMC 6.11 on leaf units of the real sources (goto-cc with the release flags), counterexamples replayed natively'},
 ],
 'checks': checks,
 'notes': 'All checks rebuild IR / goto binaries / native replay programs from /repo\'s working tree into a scratch directory under /var/tmp and remove it on exit. VERIF_REPO overrides the tree location (used to run the checks against seeded changes in a scratch worktree).',
 'not_applicable': [{'property_id': p, 'reason': NA.get(p, DEFAULT_NA)} for p in props if p not in CHECKS],
}
json.dump(m, open(V + '/MANIFEST.json', 'w'), indent=1)
print('checks:', [c['property_id'] for c in checks])
