#!/usr/bin/env python3-vt
# setup: nothing to build ahead of time (every check regenerates its inputs from /repo); verify the tool chain
import shutil, sys
missing = [t for t in ('clang-14', 'llvm-link-14', 'opt-14', 'gcc', 'nasm', 'objdump', 'cbmc', 'goto-cc', 'z3') if shutil.which(t) is None]
import z3
print('z3', z3.get_version_string(), 'missing tools:', missing)
sys.exit(1 if missing else 0)
