#!/usr/bin/env python3-vt
# replay a recorded violation (evidence/replays/<id>/viol-NN.json) against a native build of /repo's tree
import sys, os, json
sys.path.insert(0, os.path.join(os.path.dirname(os.path.abspath(__file__)), '..', 'lib'))
import build, e1
v = json.load(open(sys.argv[1]))
if 'harness' not in v:
    print(json.dumps(v, indent=1)); print('(not an E1 counterexample: see the trace/model recorded above)'); sys.exit(1)
d = build.scratch('cimba-replay')
san = v.get('kind') in ('memory', 'uninit', 'ub', 'control')
b = build.native_harness(d, os.path.join(build.VERIF, 'harness', v['harness']), v['defs'], san=san)
o = e1.replay(b, v['entry'], v['inputs'])
print('inputs:', v['inputs'])
print('native rc=%s assert failures=%s diverged=%s' % (o['rc'], o['fails'], o['diverged']))
print(o['stderr'][-2000:])
sys.exit(1 if (o['rc'] != 0 or o['fails']) else 0)
