#!/usr/bin/env python3-vt
# seedtest.py <seed dir containing patch.diff [demo.c]> <PROP> [<PROP> ...] [--tier quick|thorough] [--keep]
# Applies the seeded change in a scratch worktree of /repo, confirms the demonstration (passes clean, fails patched),
# runs the given checks against the patched tree (VERIF_REPO) with evidence redirected, prints a summary and
# writes <seed dir>/result.json.  The scratch worktree is removed afterwards.
import sys, os, subprocess, json, shutil, tempfile, time
V = os.path.dirname(os.path.dirname(os.path.abspath(__file__)))
sys.path.insert(0, V + '/lib')
args = [a for a in sys.argv[1:] if not a.startswith('--')]
tier = 'quick'
if '--tier' in sys.argv:
    tier = sys.argv[sys.argv.index('--tier') + 1]
    args = [a for a in args if a != tier]
seed, props = os.path.abspath(args[0]), args[1:]
wt = tempfile.mkdtemp(prefix='seedwt.', dir='/var/tmp')
os.rmdir(wt)
subprocess.run(['git', '-C', '/repo', 'worktree', 'add', '-q', '--detach', wt, 'HEAD'], check=True)
res = {'seed': seed, 'checks': {}, 'tier': tier}
try:
    r = subprocess.run(['git', '-C', wt, 'apply', os.path.join(seed, 'patch.diff')], capture_output=True, text=True)
    res['patch_applies'] = r.returncode == 0
    if r.returncode != 0:
        print('PATCH DOES NOT APPLY', r.stderr[-500:])
    else:
        demo = os.path.join(seed, 'demo.c')
        if os.path.exists(demo):
            for label, repo in (('clean', '/repo'), ('patched', wt)):
                d = tempfile.mkdtemp(prefix='seeddemo.', dir='/var/tmp')
                env = dict(os.environ, VERIF_REPO=repo, VERIF_KEEP='1')
                code = ("import sys; sys.path.insert(0, %r); import build; d=%r; lib=build.native_lib(d, opt='-O2'); "
                        "build.sh(['gcc','-O1','-g','-D_DEFAULT_SOURCE']+build.RELEASE_FLAGS+build.incflags(d)+['-o', d+'/demo', %r, lib, '-lm','-lpthread'])" % (V + '/lib', d, demo))
                b = subprocess.run(['python3-vt', '-c', code], env=env, capture_output=True, text=True)
                if b.returncode != 0:
                    res['demo_' + label] = 'build failed: ' + (b.stderr or b.stdout)[-400:]
                else:
                    try:
                        x = subprocess.run([d + '/demo'], capture_output=True, text=True, timeout=300, errors='replace')
                        res['demo_' + label] = x.returncode
                    except subprocess.TimeoutExpired:
                        res['demo_' + label] = 'timeout'
                shutil.rmtree(d, ignore_errors=True)
            print('demo: clean ->', res.get('demo_clean'), ' patched ->', res.get('demo_patched'))
        evd = tempfile.mkdtemp(prefix='seedev.', dir='/var/tmp')
        for p in props:
            t0 = time.time()
            env = dict(os.environ, VERIF_REPO=wt, VERIF_EVIDENCE_DIR=evd, VERIF_TIER=tier)
            x = subprocess.run(['python3-vt', os.path.join(V, 'checks', p.lower() + '.py'), tier], env=env, capture_output=True, text=True, cwd=V)
            lines = [l for l in x.stdout.splitlines() if l.startswith(('VIOLATION', 'KNOWN-FINDING', 'PROBLEM'))]
            res['checks'][p] = {'exit': x.returncode, 'wall_s': round(time.time() - t0, 1),
                                'violations': [l[:260] for l in lines if l.startswith('VIOLATION')][:8],
                                'problems': [l[:260] for l in lines if l.startswith('PROBLEM')][:4],
                                'detected': x.returncode == 1 and any(l.startswith('VIOLATION') for l in lines)}
            print('%s: exit %d, %d VIOLATION line(s), %.0fs %s' % (p, x.returncode, sum(1 for l in lines if l.startswith('VIOLATION')), time.time() - t0,
                                                                  '' if x.returncode in (0, 1) else x.stdout[-600:] + x.stderr[-600:]))
            for l in lines[:4]:
                print('    ' + l[:230])
        shutil.rmtree(evd, ignore_errors=True)
finally:
    subprocess.run(['git', '-C', '/repo', 'worktree', 'remove', '--force', wt])
with open(os.path.join(seed, 'result.json'), 'w') as f:
    json.dump(res, f, indent=1)
