#!/usr/bin/env python3-vt
# developer tool: run one harness entry through E1 and print a summary
# usage: e1dev.py harness.c entry [-DX=1 ...] [--opt k=v] [--replay]
import sys, time, os, json
sys.path.insert(0, os.path.join(os.path.dirname(os.path.abspath(__file__)), '..', 'lib'))
import build, irparse, symex, e1
args = sys.argv[1:]
h, entry = args[0], args[1]
defs = [a[2:] for a in args[2:] if a.startswith('-D')]
opts = {'verbose': 0, 'time_limit': float(os.environ.get('E1_TL', '120'))}
for a in args[2:]:
    if a.startswith('--opt'):
        k, v = a.split('=', 1)[0][6:], a.split('=', 1)[1]
    if a.startswith('-O'):
        k, v = a[2:].split('=')
        opts[k] = int(v) if v.lstrip('-').isdigit() else (__import__('ast').literal_eval(v) if v[:1] in '[({' else v)
if '-v' in args: opts['verbose'] = 1
d = os.environ.get('E1DEV_DIR', '/var/tmp/w/dev')
os.makedirs(d, exist_ok=True)
os.environ['VERIF_KEEP'] = '1'
for f in os.listdir(d):
    if f.startswith(h[:-2]): os.remove(os.path.join(d, f))
if '--fresh' in args:
    import shutil; shutil.rmtree(d); os.makedirs(d)
ll = build.harness_ir(d, os.path.join(build.VERIF, 'harness', h), defs)
M = irparse.parse(ll)
E = symex.Engine(M, opts)
t = time.time(); E.run('@' + entry); t = time.time() - t
print('run %.2fs paths %d pruned %d inconcl %d instr %d (%.0f/s) queries %d solver %.2fs viol %d forks %d aborted %s' % (t, len(E.paths), E.npruned, len(E.inconcl), E.ninstr, E.ninstr / max(t, 1e-9), E.nq, E.qt, len(E.viol), E.nforks, E.aborted))
seen = {}
for v in E.viol:
    seen.setdefault((v['kind'], v['msg']), []).append(v)
for (k, m), vs in seen.items():
    v = vs[0]
    print('VIOL x%d' % len(vs), k, m, '\n     where', v['where'], '\n     inputs', [(i[0], i[-1] if i[1] == 'f' else (i[2] if i[2] < 2**63 else i[2] - 2**64)) for i in v['inputs']], '\n     tags', v['tags'], 'notes', v['notes'][-6:])
    if '--replay' in args:
        b = build.native_harness(d, os.path.join(build.VERIF, 'harness', h), defs)
        o = e1.replay(b, entry, v['inputs'])
        print('     native: rc', o['rc'], 'fails', o['fails'], o['diverged'], o['stderr'][-300:])
for v in E.inconcl[:5]: print('INCONCL', v)
print('covers', E.covers)
if '--paths' in args:
    for p in E.paths[:10]: print(p)
