/* c16_dice.c - E2 (CBMC, floating point bit-exact): cmb_random_dice(a, b) stays within [a, b] and cmb_random_uniform
 * within [min, max] for EVERY raw 64-bit draw (the body of cmb_random_sfc64 is removed, so each call returns an
 * arbitrary value) - including the rounding of (b - a + 1) * u and of min + (max - min) * u. */
#include "e2.h"
#include <math.h>
/* exact model of the one libm call on this path: scaling by a power of two */
double ldexp(double x, int e)
{
    double f = 1.0;
    if (e >= 0) { for (int i = 0; i < e && i < 64; i++) f *= 2.0; return x * f; }
    for (int i = 0; i < -e && i < 64; i++) f *= 0.5;
    return x * f;
}
#include <stddef.h>
#include <stdio.h>
#include "cmb_random.h"
/* every raw draw is an input: the library's own generator is renamed, the header's inline samplers call this one */
#define cmb_random_sfc64 cmb_random_sfc64_real
#include "cmb_random.c"
#undef cmb_random_sfc64
static uint64_t in_draw[4];
static int ndraw;
uint64_t cmb_random_sfc64(void)
{
    int k = ndraw < 3 ? ndraw++ : 3;
    IN_U64_AT(in_draw, k);
    return in_draw[k];
}

static int64_t in_a, in_b;
static double in_min, in_max;
#ifndef LIMIT
#define LIMIT 2147483648LL
#endif

void harness(void)
{
    IN_I64(in_a); IN_I64(in_b);
    ASSUME(in_a < in_b && in_a >= -LIMIT && in_b <= LIMIT);
    long r = cmb_random_dice((long)in_a, (long)in_b);
#ifdef WITNESS
    ASSERT(r != in_a, "WITNESS reachable");
#else
    ASSERT(r >= in_a && r <= in_b, "dice result lies within [a, b]");
#endif
#ifndef WITNESS
    /* the base uniform variate, bit-exact: the conversion of the raw draw must not round up to 1.0 */
    double base = cmb_random();
    ASSERT(base >= 0.0 && base < 1.0, "cmb_random lies in [0, 1) for every raw draw");
    unsigned bern = cmb_random_bernoulli(0.0);
    ASSERT(bern == 0 || bern == 1, "bernoulli is 0 or 1");
#endif
#ifdef WITH_UNIFORM
    IN_F64(in_min); IN_F64(in_max);
#ifdef UGRID
    /* bounds on a dyadic grid (multiples of 1/UGRID within +-URANGE): few significant bits in one multiplier operand */
    ASSUME(in_min < in_max && in_min >= -(double)URANGE && in_max <= (double)URANGE);
    ASSUME(in_min * UGRID == floor(in_min * UGRID) && in_max * UGRID == floor(in_max * UGRID));
#else
    ASSUME(in_min < in_max && in_min >= -1.0e6 && in_max <= 1.0e6);
#endif
    double u = cmb_random_uniform(in_min, in_max);
    ASSERT(u >= in_min && u <= in_max, "uniform variate lies within [min, max]");
#endif
}
