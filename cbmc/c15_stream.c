/* c15_stream.c - E2 (CBMC, SMT back end): for every seed and every prior value of the generator's static state,
 * cmb_random_initialize(seed) puts the generator on the documented sfc64 stream (splitmix64 bootstrap, 20 discarded
 * outputs) and empties the bit cache of cmb_random_flip. */
#include "e2.h"
#include "cmb_random.c"

static uint64_t rs, ra, rb, rc, rctr;
static uint64_t ref_splitmix(void)
{
    rs += UINT64_C(0x9E3779B97F4A7C15);
    uint64_t z = rs;
    z ^= z >> 30; z *= UINT64_C(0xBF58476D1CE4E5B9);
    z ^= z >> 27; z *= UINT64_C(0x94D049BB133111EB);
    z ^= z >> 31;
    return z;
}
static uint64_t ref_sfc64(void)
{
    uint64_t out = ra + rb + rctr;
    rctr += 1;
    ra = rb ^ (rb >> 11);
    rb = rc + (rc << 3);
    rc = ((rc << 24) | (rc >> 40)) + out;
    return out;
}
static void ref_seed(uint64_t seed)
{
    rs = seed;
    ra = ref_splitmix(); rb = ref_splitmix(); rc = ref_splitmix(); rctr = ref_splitmix();
    for (int i = 0; i < 20; i++) (void)ref_sfc64();
}

#ifndef K
#define K 3
#endif
static uint64_t in_seed, in_pa, in_pb, in_pc, in_pd, in_sm, in_is, in_fb;
static uint8_t in_fp;

void harness(void)
{
    IN_U64(in_seed); IN_U64(in_pa); IN_U64(in_pb); IN_U64(in_pc); IN_U64(in_pd); IN_U64(in_sm); IN_U64(in_is); IN_U64(in_fb); IN_U8(in_fp);
    /* arbitrary prior history of this thread */
    prng_state.a = in_pa; prng_state.b = in_pb; prng_state.c = in_pc; prng_state.d = in_pd;
    splitmix_state = in_sm; initial_seed = in_is;
#ifdef HAVE_FLIP_STATICS
    ASSUME(in_fp <= 64);
    flip_bits = in_fb; flip_bitpos = in_fp;
#endif
    cmb_random_initialize(in_seed);
    ref_seed(in_seed);
#ifdef WITNESS
    ASSERT(cmb_random_sfc64() != ref_sfc64(), "WITNESS reachable and equal");
#else
    ASSERT(cmb_random_curseed() == in_seed, "curseed reports the seed");
    for (int i = 0; i < K; i++) {
        uint64_t got = cmb_random_sfc64(), want = ref_sfc64();
        ASSERT(got == want, "raw stream is sfc64 seeded by splitmix64 with 20 discarded outputs");
    }
    /* the first flip after seeding is the top bit of the next raw output, whatever was cached before */
    uint64_t next = ref_sfc64();
    ASSERT(cmb_random_flip() == (int)(next >> 63), "first flip after seeding comes from the new stream");
    ASSERT(cmb_random_flip() == (int)((next >> 62) & 1), "second flip after seeding comes from the new stream");
#endif
}
