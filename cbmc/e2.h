/* e2.h - harness vocabulary shared by the CBMC run and the native replay of its counterexamples.
 * Inputs are file-scope variables (so that the trace names them); IN_*(v) havocs / replays one. */
#ifndef VERIF_E2_H
#define VERIF_E2_H
#include <stdint.h>
#include <stdbool.h>
#ifdef E2_NATIVE
extern uint64_t e2_in_bits(const char *name, int width);
extern void e2_assume_fail(const char *c);
extern void e2_assert_fail(const char *msg);
static inline double e2_bits_f64(uint64_t b) { double d; __builtin_memcpy(&d, &b, 8); return d; }
#define IN_U64(v) ((v) = (uint64_t)e2_in_bits(#v, 64))
#define IN_I64(v) ((v) = (int64_t)e2_in_bits(#v, 64))
#define IN_U32(v) ((v) = (uint32_t)e2_in_bits(#v, 32))
#define IN_I32(v) ((v) = (int32_t)e2_in_bits(#v, 32))
#define IN_U16(v) ((v) = (uint16_t)e2_in_bits(#v, 16))
#define IN_U8(v)  ((v) = (uint8_t)e2_in_bits(#v, 8))
#define IN_F64(v) ((v) = e2_bits_f64(e2_in_bits(#v, 64)))
extern uint64_t e2_in_idx(const char *arr, long k, int width);
#define IN_U64_AT(a, k) ((a)[k] = (uint64_t)e2_in_idx(#a, (long)(k), 64))
#define IN_I64_AT(a, k) ((a)[k] = (int64_t)e2_in_idx(#a, (long)(k), 64))
#define IN_U32_AT(a, k) ((a)[k] = (uint32_t)e2_in_idx(#a, (long)(k), 32))
#define IN_U8_AT(a, k)  ((a)[k] = (uint8_t)e2_in_idx(#a, (long)(k), 8))
#define IN_F64_AT(a, k) ((a)[k] = e2_bits_f64(e2_in_idx(#a, (long)(k), 64)))
#define ASSUME(c) do { if (!(c)) e2_assume_fail(#c); } while (0)
#define ASSERT(c, msg) do { if (!(c)) e2_assert_fail(msg); } while (0)
#else
uint64_t nondet_u64(void); int64_t nondet_i64(void); uint32_t nondet_u32(void); int32_t nondet_i32(void);
uint16_t nondet_u16(void); uint8_t nondet_u8(void); double nondet_f64(void);
#define IN_U64(v) ((v) = nondet_u64())
#define IN_I64(v) ((v) = nondet_i64())
#define IN_U32(v) ((v) = nondet_u32())
#define IN_I32(v) ((v) = nondet_i32())
#define IN_U16(v) ((v) = nondet_u16())
#define IN_U8(v)  ((v) = nondet_u8())
#define IN_F64(v) ((v) = nondet_f64())
#define IN_U64_AT(a, k) ((a)[k] = nondet_u64())
#define IN_I64_AT(a, k) ((a)[k] = nondet_i64())
#define IN_U32_AT(a, k) ((a)[k] = nondet_u32())
#define IN_U8_AT(a, k)  ((a)[k] = nondet_u8())
#define IN_F64_AT(a, k) ((a)[k] = nondet_f64())
#define ASSUME(c) __CPROVER_assume(c)
#define ASSERT(c, msg) __CPROVER_assert(c, msg)
#endif
#endif
