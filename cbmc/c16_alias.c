/* c16_alias.c - E2 (CBMC, floating point bit-exact): the probability law implied by the table that
 * cmb_random_alias_create builds - P(i) = (uprob[i] + sum over columns j with alias[j] = i of (2^64 - uprob[j])) / (n 2^64) -
 * equals pa[i] / sum(pa) up to rounding, for EVERY probability vector of NN entries (IEEE doubles, sum within the
 * accepted tolerance), including the rounding of (work[g] + work[l]) - 1.0 that can strand a column. */
#include "e2.h"
#include <math.h>
#include <stddef.h>
#include <stdio.h>
#include "cmb_random.h"
#include "cmb_random.c"
#ifndef NN
#define NN 3
#endif
static double in_p[4];

void harness(void)
{
    double pa[NN]; double psum = 0.0;
    for (int i = 0; i < NN; i++) {
        IN_F64_AT(in_p, i);
        ASSUME(in_p[i] >= 0.0 && in_p[i] <= 1.0);
#ifdef GRID
        /* probabilities on a grid of GRID steps (keeps the floating-point search space small) */
        ASSUME(in_p[i] * GRID == floor(in_p[i] * GRID));
#endif
        pa[i] = in_p[i]; psum += pa[i];
    }
    ASSUME(fabs(psum - 1.0) <= 0.0009);
    struct cmb_random_alias *ap = cmb_random_alias_create(NN, pa);
#ifdef WITNESS
    ASSERT(ap->alias[0] == 0, "WITNESS reachable: some column has an alias");
#else
    for (unsigned i = 0; i < NN; i++) ASSERT(ap->alias[i] < NN, "alias table entries are valid indices");
    for (unsigned i = 0; i < NN; i++) {
        /* weight of outcome i in units of 1 / (n 2^64) */
        unsigned __int128 wgt = 0;
        for (unsigned j = 0; j < NN; j++) {
            if (j == i) wgt += ap->uprob[j];
            if (ap->alias[j] == i && !(j == i)) wgt += ((unsigned __int128)1 << 64) - ap->uprob[j];
            if (ap->alias[j] == i && j == i) wgt += ((unsigned __int128)1 << 64) - ap->uprob[j];
        }
        double got = (double)(uint64_t)(wgt >> 16) / 281474976710656.0 / (double)NN;       /* wgt / 2^64 / n, 48 bits kept */
        double want = pa[i] / psum;
        ASSERT(got - want <= 1e-6 && want - got <= 1e-6, "the law implied by the alias table equals the requested probabilities");
    }
#endif
}
