/* order_algebra.c - E2 (CBMC): each ordering function used with the hashheap must be a strict total
 * order on entries with distinct keys and must equal its documented lexicographic order.
 * Select the unit with -DUNIT_GUARD / -DUNIT_EVENT / -DUNIT_HOLDER / -DUNIT_PRIOQ / -DUNIT_DEFAULT. */
#include "e2.h"
#if defined(UNIT_GUARD)
#include "cmb_resourceguard.c"
#define ORDER guard_queue_check
/* documented: higher priority (isortkey) first, then earlier entry time (dsortkey), then key */
#define SPEC(a,b) ((a)->isortkey != (b)->isortkey ? (a)->isortkey > (b)->isortkey : \
                   (a)->dsortkey != (b)->dsortkey ? (a)->dsortkey < (b)->dsortkey : (a)->key < (b)->key)
#elif defined(UNIT_EVENT)
#include "cmb_event.c"
#define ORDER heap_order_check
#define SPEC(a,b) ((a)->dsortkey != (b)->dsortkey ? (a)->dsortkey < (b)->dsortkey : \
                   (a)->isortkey != (b)->isortkey ? (a)->isortkey > (b)->isortkey : (a)->key < (b)->key)
#elif defined(UNIT_HOLDER)
#include "cmb_resourcepool.c"
#define ORDER holder_queue_check
/* documented: lowest priority first, among equals the most recent (largest key) first */
#define SPEC(a,b) ((a)->isortkey != (b)->isortkey ? (a)->isortkey < (b)->isortkey : (a)->key > (b)->key)
#elif defined(UNIT_PRIOQ)
#include "cmb_priorityqueue.c"
#define ORDER compare_func
#define SPEC(a,b) ((a)->isortkey != (b)->isortkey ? (a)->isortkey > (b)->isortkey : (a)->key < (b)->key)
#elif defined(UNIT_DEFAULT)
#include "cmi_hashheap.c"
#define ORDER default_order_check
#define SPEC(a,b) ((a)->dsortkey < (b)->dsortkey)
#define WEAK_ONLY 1
#endif

static uint64_t in_key[3], in_hidx[3];
static double in_d[3];
static int64_t in_i[3];

static void mk(struct cmi_heap_tag *t, int k)
{
    IN_U64_AT(in_key, k); IN_F64_AT(in_d, k); IN_I64_AT(in_i, k); IN_U64_AT(in_hidx, k);
    t->key = in_key[k]; t->dsortkey = in_d[k]; t->isortkey = in_i[k]; t->hash_index = in_hidx[k];
    t->item[0] = t->item[1] = t->item[2] = t->item[3] = 0;
    ASSUME(t->key != 0);
    ASSUME(t->dsortkey == t->dsortkey);            /* times are never NaN */
}

void harness(void)
{
    struct cmi_heap_tag a, b, c;
    mk(&a, 0); mk(&b, 1); mk(&c, 2);
    ASSUME(a.key != b.key && b.key != c.key && a.key != c.key);   /* keys are unique */
    bool ab = ORDER(&a, &b), ba = ORDER(&b, &a), bc = ORDER(&b, &c), ac = ORDER(&a, &c);
#ifdef WITNESS
    ASSERT(!(ab && bc), "WITNESS reachable");
#else
    ASSERT(!ORDER(&a, &a), "irreflexive");
    ASSERT(!(ab && ba), "asymmetric");
    ASSERT(!(ab && bc) || ac, "transitive");
    ASSERT(ab == (SPEC(&a, &b) ? true : false), "equals the documented lexicographic order");
#ifndef WEAK_ONLY
    ASSERT(ab || ba, "total on distinct keys");
#else
    /* a strict weak order: incomparability is transitive */
    bool cb = ORDER(&c, &b), ca = ORDER(&c, &a);
    ASSERT(!(!ab && !ba && !bc && !cb) || (!ac && !ca), "incomparability transitive");
#endif
#endif
}
