/* e2_native.c - native replay of a CBMC counterexample: inputs come from $E2_REPLAY,
 * lines "<lhs-name> <decimal uint64 bit pattern>" */
#include <stdio.h>
#include <stdlib.h>
#include <string.h>
#include <inttypes.h>
static int loaded, nin, nfail;
static char names[512][96];
static uint64_t vals[512];
static void load(void)
{
    if (loaded) return;
    loaded = 1;
    const char *p = getenv("E2_REPLAY");
    FILE *f = p ? fopen(p, "r") : NULL;
    if (!f) { printf("REPLAY-ERROR no input\n"); exit(4); }
    while (nin < 512 && fscanf(f, " %95s %" SCNu64, names[nin], &vals[nin]) == 2) nin++;
    fclose(f);
}
uint64_t e2_in_bits(const char *name, int width)
{
    load();
    for (int i = 0; i < nin; i++) if (strcmp(names[i], name) == 0) return width == 64 ? vals[i] : vals[i] & ((UINT64_C(1) << width) - 1);
    printf("REPLAY-MISSING %s\n", name);   /* not assigned on the trace: any value, take 0 */
    return 0;
}
uint64_t e2_in_idx(const char *arr, long k, int width)
{
    char nm[128];
    snprintf(nm, sizeof nm, "%s[%ld]", arr, k);
    return e2_in_bits(nm, width);
}
void e2_assume_fail(const char *c) { printf("ASSUME-FAIL %s\n", c); fflush(stdout); exit(3); }
void e2_assert_fail(const char *msg) { nfail++; printf("ASSERT-FAIL %s\n", msg); fflush(stdout); }
extern void harness(void);
int main(void) { setvbuf(stdout, NULL, _IOLBF, 0); harness(); printf("END %d\n", nfail); return nfail ? 1 : 0; }
