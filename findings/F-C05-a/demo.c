/* F-C05-a: a preemption and an interrupt of the same process in one instant - the victim is never told PREEMPTED.
 * Build against the tree's library, e.g.
 *   gcc -O1 -std=c17 -D_POSIX_C_SOURCE=200809L -DNDEBUG -I/repo/include -I/repo/src demo.c -L/repo/_build/src -lcimba -lm -lpthread -Wl,-rpath,/repo/_build/src
 * Output on the tree as repaired so far:
 *   t=5 boss: preempt returned 0
 *   t=5 victim: hold returned 77; library says victim holds: 0, in_use 1
 *   victim believes it still holds and releases
 *   after release: in_use 0           <- the preemptor still holds the resource
 */
#include <stdio.h>
#include <stdint.h>
#include "cimba.h"
static struct cmb_resource *R; static struct cmb_process *vic;
static void *victim(struct cmb_process *me, void *ctx)
{
    (void)ctx;
    cmb_resource_acquire(R);
    int64_t r = cmb_process_hold(10.0);
    printf("t=%g victim: hold returned %ld; library says victim holds: %lu, in_use %lu\n", cmb_time(), (long)r, (unsigned long)cmb_resource_held_by_process(R, me), (unsigned long)cmb_resource_in_use(R));
    if (r != CMB_PROCESS_PREEMPTED) { printf("victim believes it still holds and releases\n"); cmb_resource_release(R); printf("after release: in_use %lu, boss holds? \n", (unsigned long)cmb_resource_in_use(R)); }
    r = cmb_process_hold(3.0);
    printf("t=%g victim: second hold returned %ld (PREEMPTED is %d)\n", cmb_time(), (long)r, (int)CMB_PROCESS_PREEMPTED);
    return 0;
}
static void *boss(struct cmb_process *me, void *ctx)
{
    (void)me; (void)ctx;
    cmb_process_hold(5.0);
    int64_t r = cmb_resource_preempt(R);
    printf("t=%g boss: preempt returned %ld\n", cmb_time(), (long)r);
    cmb_process_hold(20.0);
    cmb_resource_release(R);
    return 0;
}
static void *other(struct cmb_process *me, void *ctx)
{
    (void)me; (void)ctx;
    cmb_process_hold(5.0);
    cmb_process_interrupt(vic, 77, 1);
    return 0;
}
int main(void)
{
    cmb_logger_flags_off(0xFFFFFFFFu);
    cmb_event_queue_initialize(0.0);
    R = cmb_resource_create(); cmb_resource_initialize(R, "R");
    vic = cmb_process_create(); cmb_process_initialize(vic, "victim", victim, 0, 0); cmb_process_start(vic);
    struct cmb_process *b = cmb_process_create(); cmb_process_initialize(b, "boss", boss, 0, 5); cmb_process_start(b);
    struct cmb_process *o = cmb_process_create(); cmb_process_initialize(o, "other", other, 0, 0); cmb_process_start(o);
    cmb_event_queue_execute();
    return 0;
}
