# symmem.py - values and memory model of the E1 symbolic executor.
import struct as _st
from fractions import Fraction
import z3

ABASE_SHIFT = 28          # every allocation gets a 256 MiB address window
FN_BASE = 0x1000


class Ptr:
    __slots__ = ('a', 'o')

    def __init__(s, a, o):
        s.a = a
        s.o = o

    def __eq__(s, t):
        return isinstance(t, Ptr) and s.a == t.a and s.o == t.o

    def __hash__(s):
        return hash((s.a, s.o))

    def __repr__(s):
        return '<%d+%d>' % (s.a, s.o)

    def addr(s):
        return ((s.a + 1) << ABASE_SHIFT) + s.o


class Fn:
    __slots__ = ('name', 'idx')

    def __init__(s, name, idx):
        s.name = name
        s.idx = idx

    def __repr__(s):
        return 'fn' + s.name

    def addr(s):
        return FN_BASE + 16 * s.idx


class Cont:
    """a parked coroutine continuation stored in a stack-pointer slot"""
    __slots__ = ('cid',)

    def __init__(s, cid):
        s.cid = cid

    def __repr__(s):
        return 'cont#%d' % s.cid


class _Undef:
    def __repr__(s):
        return 'UNDEF'


UNDEF = _Undef()


class Violation(Exception):
    def __init__(s, kind, msg):
        Exception.__init__(s, kind + ': ' + msg)
        s.kind = kind
        s.msg = msg


class PathEnd(Exception):
    pass


class Inconclusive(Exception):
    pass


class ForkRequest(Exception):
    """raised inside an instruction before any side effect: re-execute it once per constraint"""

    def __init__(s, alts):
        s.alts = alts


def f2bits(x):
    return _st.unpack('<Q', _st.pack('<d', x))[0]


def bits2f(x):
    return _st.unpack('<d', _st.pack('<Q', x & 0xFFFFFFFFFFFFFFFF))[0]


def f2real(x):
    if x != x or x in (float('inf'), float('-inf')):
        raise Inconclusive('NaN/inf meets a symbolic real')
    fr = Fraction(x)
    return z3.RealVal(str(fr.numerator) + '/' + str(fr.denominator)) if fr.denominator != 1 else z3.RealVal(fr.numerator)


class Alloc:
    __slots__ = ('size', 'cells', 'live', 'tag', 'fill', 'owner', 'kind')

    def __init__(s, size, tag, kind, owner):
        s.size = size
        s.cells = {}
        s.live = True
        s.tag = tag
        s.fill = None       # None = never written; int = byte value for uncovered bytes
        s.owner = owner
        s.kind = kind       # 'heap' 'stack' 'global' 'const'

    def clone(s, owner):
        c = Alloc(s.size, s.tag, s.kind, owner)
        c.cells = dict(s.cells)
        c.live = s.live
        c.fill = s.fill
        return c


def to_int_bits(v, n):
    """value of an n-byte cell as integer-like (python int or BitVec(8n)), for byte surgery"""
    if isinstance(v, int):
        return v
    if isinstance(v, float):
        return f2bits(v) if n == 8 else _st.unpack('<I', _st.pack('<f', v))[0]
    if isinstance(v, (Ptr, Fn)):
        return v.addr()
    if v is UNDEF:
        return UNDEF
    if isinstance(v, Cont):
        raise Inconclusive('byte access to a saved stack pointer')
    if z3.is_bool(v):
        return z3.If(v, z3.BitVecVal(1, 8 * n), z3.BitVecVal(0, 8 * n))
    if z3.is_bv(v):
        return v
    raise Inconclusive('byte access to a symbolic real')


class Memory:
    """per-state view: dict id -> Alloc, copy-on-write through owner tokens"""

    def __init__(s):
        s.allocs = {}
        s.next = 1
        s.owner = object()

    def fork(s):
        t = Memory()
        t.allocs = dict(s.allocs)
        t.next = s.next
        s.owner = object()
        return t

    def new(s, size, tag, kind):
        a = s.next
        s.next += 1
        s.allocs[a] = Alloc(size, tag, kind, s.owner)
        return Ptr(a, 0)

    def wr(s, aid):
        a = s.allocs[aid]
        if a.owner is not s.owner:
            a = a.clone(s.owner)
            s.allocs[aid] = a
        return a

    def check(s, p, n, what='access'):
        if not isinstance(p, Ptr):
            if isinstance(p, int):
                raise Violation('memory', '%s through %s pointer 0x%x' % (what, 'null' if p == 0 else 'invalid', p))
            if p is UNDEF:
                raise Violation('uninit', '%s through uninitialised pointer' % what)
            raise Violation('memory', '%s through non-pointer %r' % (what, p))
        a = s.allocs.get(p.a)
        if a is None:
            raise Violation('memory', '%s to dead stack frame object' % what)
        if not a.live:
            raise Violation('memory', 'use after free: %s of %d bytes at %s+%d' % (what, n, a.tag, p.o))
        if p.o < 0 or p.o + n > a.size:
            raise Violation('memory', 'out of bounds: %s of %d bytes at offset %d of %s (size %d)' % (what, n, p.o, a.tag, a.size))
        return a

    # --- byte surgery -------------------------------------------------
    def _split(s, a, off):
        """make sure no cell straddles byte position off (cells become single bytes)"""
        for o in range(max(0, off - 7), off):
            c = a.cells.get(o)
            if c is not None and o + c[0] > off:
                s._explode(a, o)
                return

    def _explode(s, a, o):
        n, v = a.cells.pop(o)
        iv = to_int_bits(v, n)
        for i in range(n):
            if iv is UNDEF:
                b = UNDEF
            elif isinstance(iv, int):
                b = (iv >> (8 * i)) & 0xFF
            else:
                b = z3.simplify(z3.Extract(8 * i + 7, 8 * i, iv))
                if z3.is_bv_value(b):
                    b = b.as_long()
            a.cells[o + i] = (1, b)

    def _clear(s, a, off, n):
        s._split(a, off)
        s._split(a, off + n)
        cells = a.cells
        if n <= 64 or n < 4 * len(cells):
            for o in range(off, off + n):
                if o in cells:
                    del cells[o]
        else:
            for o in [o for o in cells if off <= o < off + n]:
                del cells[o]

    def store(s, p, n, v):
        s.check(p, n, 'store')
        a = s.wr(p.a)
        if a.kind == 'const':
            raise Violation('memory', 'store to constant ' + str(a.tag))
        c = a.cells.get(p.o)
        if c is not None and c[0] == n:
            # could still overlap a straddling neighbour only if sizes differ; same start+size is exact
            a.cells[p.o] = (n, v)
            return
        s._clear(a, p.o, n)
        a.cells[p.o] = (n, v)

    def load_raw(s, p, n):
        """returns the stored python/z3 value if an exact cell exists, else an int-like composition"""
        a = s.check(p, n, 'load')
        c = a.cells.get(p.o)
        if c is not None and c[0] == n:
            return c[1], True
        # compose from bytes
        parts = []
        o = p.o
        end = p.o + n
        while o < end:
            c = a.cells.get(o)
            if c is None:
                # inside an earlier cell?
                found = False
                for b in range(max(0, o - 7), o):
                    cc = a.cells.get(b)
                    if cc is not None and b + cc[0] > o:
                        iv = to_int_bits(cc[1], cc[0])
                        take = min(end, b + cc[0]) - o
                        sh = 8 * (o - b)
                        if iv is UNDEF:
                            parts.append((take, UNDEF))
                        elif isinstance(iv, int):
                            parts.append((take, (iv >> sh) & ((1 << (8 * take)) - 1)))
                        else:
                            parts.append((take, z3.Extract(sh + 8 * take - 1, sh, iv)))
                        o += take
                        found = True
                        break
                if found:
                    continue
                if a.fill is None:
                    parts.append((1, UNDEF))
                else:
                    parts.append((1, a.fill))
                o += 1
                continue
            cn, v = c
            take = min(cn, end - o)
            iv = to_int_bits(v, cn)
            if iv is UNDEF:
                parts.append((take, UNDEF))
            elif take == cn:
                parts.append((take, iv))
            elif isinstance(iv, int):
                parts.append((take, iv & ((1 << (8 * take)) - 1)))
            else:
                parts.append((take, z3.Extract(8 * take - 1, 0, iv)))
            o += take
        if any(v is UNDEF for _, v in parts):
            return UNDEF, False
        if all(isinstance(v, int) for _, v in parts):
            r = 0
            sh = 0
            for k, v in parts:
                r |= v << sh
                sh += 8 * k
            return r, False
        bvs = [v if not isinstance(v, int) else z3.BitVecVal(v, 8 * k) for k, v in parts]
        bvs.reverse()
        return z3.simplify(z3.Concat(*bvs)) if len(bvs) > 1 else bvs[0], False

    def memset(s, p, byte, n):
        if n == 0:
            return
        s.check(p, n, 'memset')
        a = s.wr(p.a)
        if p.o == 0 and n == a.size:
            a.cells = {}
            a.fill = byte
            return
        s._clear(a, p.o, n)
        o = p.o
        end = p.o + n
        word = int.from_bytes(bytes([byte]) * 8, 'little')
        while o < end:
            if o % 8 == 0 and o + 8 <= end:
                a.cells[o] = (8, word)
                o += 8
            else:
                a.cells[o] = (1, byte)
                o += 1

    def memcpy(s, d, sr, n, overlap_ok=False):
        if n == 0:
            return
        sa = s.check(sr, n, 'memcpy source')
        s.check(d, n, 'memcpy destination')
        if d.a == sr.a and not overlap_ok and abs(d.o - sr.o) < n and d.o != sr.o:
            raise Violation('memory', 'memcpy with overlapping regions')
        if d.a == sr.a and d.o == sr.o:
            return
        sa = s.wr(sr.a)
        s._split(sa, sr.o)
        s._split(sa, sr.o + n)
        src_cells = sa.cells
        if n <= 64 or n < 4 * len(src_cells):
            items = [(o, src_cells[o]) for o in range(sr.o, sr.o + n) if o in src_cells]
        else:
            items = [(o, c) for o, c in src_cells.items() if sr.o <= o < sr.o + n]
        sfill = sa.fill
        da = s.wr(d.a)
        if da.kind == 'const':
            raise Violation('memory', 'store to constant ' + str(da.tag))
        s._clear(da, d.o, n)
        delta = d.o - sr.o
        for o, c in items:
            da.cells[o + delta] = c
        if sfill != da.fill:
            # uncovered source bytes carry the source fill: materialise them in the destination
            covered = bytearray(n)
            for o, c in items:
                for i in range(c[0]):
                    covered[o - sr.o + i] = 1
            for i in range(n):
                if not covered[i]:
                    da.cells[d.o + i] = (1, sfill if sfill is not None else UNDEF)

    def free(s, p):
        if isinstance(p, int) and p == 0:
            return
        if not isinstance(p, Ptr):
            raise Violation('memory', 'free of non-pointer %r' % (p,))
        a = s.allocs.get(p.a)
        if a is None or a.kind != 'heap':
            raise Violation('memory', 'free of non-heap object %s' % (a.tag if a else p))
        if not a.live:
            raise Violation('memory', 'double free of ' + str(a.tag))
        if p.o != 0:
            raise Violation('memory', 'free of interior pointer into ' + str(a.tag))
        a = s.wr(p.a)
        a.live = False
        a.cells = {}

    def lookup_addr(s, addr):
        """inverse of Ptr.addr() for concrete addresses"""
        aid = (addr >> ABASE_SHIFT) - 1
        if aid in s.allocs:
            off = addr & ((1 << ABASE_SHIFT) - 1)
            if off <= s.allocs[aid].size:
                return Ptr(aid, off)
        return None
