# build.py - regenerate everything the checks need from /repo's current working tree.
import os, subprocess, sys, shutil, tempfile, glob, hashlib, atexit

REPO = os.environ.get('VERIF_REPO', '/repo')
VERIF = os.path.dirname(os.path.dirname(os.path.abspath(__file__)))
GUARD = 'AMBONVIK_CIMBA_VERIF'
RELEASE_FLAGS = ['-DNDEBUG', '-D_POSIX_C_SOURCE=200809L', '-std=c17']
LIB_UNITS = None


def sh(cmd, **kw):
    r = subprocess.run(cmd, stdout=subprocess.PIPE, stderr=subprocess.STDOUT, text=True, **kw)
    if r.returncode != 0:
        raise RuntimeError('command failed (%d): %s\n%s' % (r.returncode, ' '.join(cmd), r.stdout[-4000:]))
    return r.stdout


def scratch(tag='cimba-verif'):
    base = os.environ.get('VERIF_SCRATCH', '/var/tmp')
    d = tempfile.mkdtemp(prefix=tag + '.', dir=base)
    if not os.environ.get('VERIF_KEEP'):
        atexit.register(lambda: shutil.rmtree(d, ignore_errors=True))
    return d


def lib_sources():
    return sorted(glob.glob(REPO + '/src/*.c')) + sorted(glob.glob(REPO + '/src/port/x86-64/linux/*.c'))


def codegen(d):
    """build and run the ziggurat table generators from the tree"""
    out = os.path.join(d, 'codegen')
    if os.path.exists(out + '/cmi_random_nor_zig.inc'):
        return out
    os.makedirs(out, exist_ok=True)
    for prog, inc in (('calc_exponential', 'cmi_random_exp_zig.inc'), ('calc_normal', 'cmi_random_nor_zig.inc')):
        exe = os.path.join(out, prog)
        sh(['gcc', '-O1', '-o', exe, REPO + '/codegen/' + prog + '.c', REPO + '/codegen/calc_utils.c', '-lm'])
        with open(os.path.join(out, inc), 'w') as f:
            f.write(sh([exe]))
    return out


def incflags(d):
    return ['-I' + REPO + '/src', '-I' + REPO + '/include', '-I' + codegen(d), '-I' + VERIF + '/harness']


def lib_ir(d, units=None):
    """clang-14 -O0 IR of the library units (all by default), linked and mem2reg'ed -> path"""
    out = os.path.join(d, 'lib.ll')
    if os.path.exists(out):
        return out
    os.makedirs(d + '/ir', exist_ok=True)
    lls = []
    procs = []
    for src in lib_sources():
        ll = d + '/ir/' + os.path.basename(src)[:-2] + '.ll'
        lls.append(ll)
        procs.append(subprocess.Popen(['clang-14', '-O0', '-Xclang', '-disable-O0-optnone', '-fno-discard-value-names',
                                       '-D' + GUARD] + RELEASE_FLAGS + incflags(d) + ['-S', '-emit-llvm', '-o', ll, src],
                                      stdout=subprocess.PIPE, stderr=subprocess.STDOUT, text=True))
    for p in procs:
        o, _ = p.communicate()
        if p.returncode != 0:
            raise RuntimeError('clang failed:\n' + o[-3000:])
    sh(['llvm-link-14', '-S', '-o', d + '/ir/all.ll'] + lls)
    sh(['opt-14', '-S', '-mem2reg', '-o', out, d + '/ir/all.ll'])
    return out


def harness_ir(d, harness_c, defs=(), name=None):
    """harness compiled the same way and linked with the library IR -> path of the combined module"""
    name = name or os.path.basename(harness_c)[:-2] + ('.' + hashlib.md5(' '.join(defs).encode()).hexdigest()[:6] if defs else '')
    out = os.path.join(d, name + '.linked.ll')
    if os.path.exists(out):
        return out
    lib = lib_ir(d)
    hll = os.path.join(d, name + '.h.ll')
    sh(['clang-14', '-O0', '-Xclang', '-disable-O0-optnone', '-fno-discard-value-names', '-DSYM_ENGINE=1', '-D' + GUARD]
       + RELEASE_FLAGS + incflags(d) + ['-D' + x for x in defs] + ['-S', '-emit-llvm', '-o', hll, harness_c])
    h2 = os.path.join(d, name + '.h2.ll')
    sh(['opt-14', '-S', '-mem2reg', '-o', h2, hll])
    sh(['llvm-link-14', '-S', '-o', out, h2, lib])
    return out


def native_lib(d, san=False, opt='-O1', draws=False):
    """static native library of the tree (gcc + nasm), release flags; optionally ASan/UBSan"""
    tag = ('nat-san' if san else 'nat') + ('-draws' if draws else '')
    out = os.path.join(d, tag, 'libcimba.a')
    if os.path.exists(out):
        return out
    os.makedirs(os.path.dirname(out), exist_ok=True)
    objs = []
    procs = []
    flags = [opt, '-g', '-fno-omit-frame-pointer', '-fno-inline-functions-called-once', '-D' + GUARD] + RELEASE_FLAGS + incflags(d)
    if san:
        flags += ['-fsanitize=address,undefined', '-fno-sanitize-recover=undefined']
    for src in lib_sources():
        o = os.path.join(d, tag, os.path.basename(src)[:-2] + '.o')
        objs.append(o)
        if draws and os.path.basename(src) == 'cmb_random.c':
            # replay of symbolic raw draws: the real generator is renamed, every caller (also inside this unit)
            # goes through an external cmb_random_sfc64 supplied by the replay runtime
            txt = open(src).read()
            assert 'uint64_t cmb_random_sfc64(void)\n{' in txt
            txt = txt.replace('uint64_t cmb_random_sfc64(void)\n{', 'uint64_t cmb_random_sfc64_real(void)\n{', 1)
            src = os.path.join(d, tag, 'cmb_random_draws.c')
            with open(src, 'w') as f:
                f.write(txt)
        procs.append(subprocess.Popen(['gcc'] + flags + ['-c', '-o', o, src], stdout=subprocess.PIPE, stderr=subprocess.STDOUT, text=True))
    for p in procs:
        o_, _ = p.communicate()
        if p.returncode != 0:
            raise RuntimeError('gcc failed:\n' + o_[-3000:])
    for asm in glob.glob(REPO + '/src/port/x86-64/linux/*.asm'):
        o = os.path.join(d, tag, os.path.basename(asm)[:-4] + '_asm.o')
        sh(['nasm', '-f', 'elf64', asm, '-o', o])
        objs.append(o)
    # make file-static functions reachable for sym_fn() in replay programs
    for o in objs:
        if not o.endswith('_asm.o'):
            syms = sh(['nm', o]).splitlines()
            loc = [l.split()[-1] for l in syms if len(l.split()) == 3 and l.split()[1] == 't']
            # only globalise names that are unique across the library (checked below)
            with open(o + '.locals', 'w') as f:
                f.write('\n'.join(loc))
    count = {}
    for o in objs:
        if os.path.exists(o + '.locals'):
            for n in open(o + '.locals').read().split():
                count[n] = count.get(n, 0) + 1
    for o in objs:
        if os.path.exists(o + '.locals'):
            names = [n for n in open(o + '.locals').read().split() if count[n] == 1 and '.' not in n]
            if names:
                sh(['objcopy'] + ['--globalize-symbol=' + n for n in names] + [o])
    if os.path.exists(out):
        os.remove(out)
    sh(['ar', 'rcs', out] + objs)
    return out


def native_harness(d, harness_c, defs=(), san=False, name=None, draws=False):
    name = name or os.path.basename(harness_c)[:-2] + ('.' + hashlib.md5(' '.join(defs).encode()).hexdigest()[:6] if defs else '')
    out = os.path.join(d, name + ('.san' if san else '') + ('.draws' if draws else '') + '.replay')
    if os.path.exists(out):
        return out
    lib = native_lib(d, san, draws=draws)
    flags = ['-O1', '-g', '-DSYM_NATIVE=1', '-D' + GUARD] + RELEASE_FLAGS + incflags(d) + ['-D' + x for x in defs] + (['-DSYM_DRAWS=1'] if draws else [])
    if san:
        flags += ['-fsanitize=address,undefined', '-fno-sanitize-recover=undefined']
    sh(['gcc'] + flags + ['-rdynamic', '-o', out, harness_c, VERIF + '/harness/sym_native.c', '-Wl,--whole-archive', lib, '-Wl,--no-whole-archive', '-lm', '-lpthread', '-ldl'])
    return out


def tree_id():
    """short identification of the source tree state, for evidence"""
    try:
        head = sh(['git', '-C', REPO, 'rev-parse', '--short', 'HEAD']).strip()
        dirty = sh(['git', '-C', REPO, 'status', '--porcelain', '--', 'src', 'include', 'codegen']).strip()
        return head + ('+dirty' if dirty else '')
    except Exception:
        return 'unknown'
