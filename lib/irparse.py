# irparse.py - reader for the subset of textual LLVM IR (clang-14, typed pointers) that the
# cimba sources and the harnesses produce.  Anything it does not know stops the run with an
# exception, so that a construct is never silently mis-read.
import re, struct as _st

TOK = re.compile(r'''\s*(?:(c"(?:[^"\\]|\\.)*")|("(?:[^"\\]|\\.)*")|([%@][-\w.$]+|[%@]"[^"]*")|(-?\d+\.\d+(?:e[+-]?\d+)?|0x[0-9A-Fa-f]+|-?\d+)|(\.\.\.)|([\w.]+)|(.))''')


def tokenize(line):
    out = []
    pos = 0
    n = len(line)
    while pos < n:
        m = TOK.match(line, pos)
        if not m:
            break
        pos = m.end()
        t = m.group(0).strip()
        if t == ';' and not m.group(1):
            break  # comment
        if t:
            out.append(t)
    return out


class Mod:
    def __init__(s):
        s.structs = {}
        s.globals = {}     # name -> dict(ty, init, tls, const, external)
        s.funcs = {}
        s.decls = set()
        s._lay = {}

    # ---- type sizes (x86-64 SysV data layout) ----
    def sizeof(s, ty):
        k = ty[0]
        if k == 'i':
            return max(1, (ty[1] + 7) // 8)
        if k == 'f':
            return ty[1] // 8
        if k == 'ptr':
            return 8
        if k == 'arr':
            return ty[1] * s.sizeof(ty[2])
        if k == 'named':
            return s.sizeof(s.structs[ty[1]])
        if k == 'struct':
            return s.layout(ty)[1]
        raise Exception('sizeof ' + str(ty))

    def alignof(s, ty):
        k = ty[0]
        if k in ('i', 'f'):
            return min(8, s.sizeof(ty)) if ty != ('f', 80) else 16
        if k == 'ptr':
            return 8
        if k == 'arr':
            return s.alignof(ty[2])
        if k == 'named':
            return s.alignof(s.structs[ty[1]])
        if k == 'struct':
            if len(ty) > 2:
                return 1
            return max([s.alignof(e) for e in ty[1]] + [1])
        raise Exception('alignof ' + str(ty))

    def layout(s, ty):
        r = s._lay.get(ty)
        if r:
            return r
        off = 0
        offs = []
        packed = len(ty) > 2
        for e in ty[1]:
            a = 1 if packed else s.alignof(e)
            off = (off + a - 1) // a * a
            offs.append(off)
            off += s.sizeof(e)
        a = s.alignof(ty)
        off = (off + a - 1) // a * a
        s._lay[ty] = (offs, off)
        return s._lay[ty]

    def resolve(s, ty):
        return s.structs[ty[1]] if ty[0] == 'named' else ty


class P:  # token cursor
    __slots__ = ('t', 'i')

    def __init__(s, toks):
        s.t = toks
        s.i = 0

    def peek(s):
        return s.t[s.i] if s.i < len(s.t) else None

    def next(s):
        v = s.t[s.i]
        s.i += 1
        return v

    def eat(s, x):
        if s.i < len(s.t) and s.t[s.i] == x:
            s.i += 1
            return True
        return False

    def expect(s, x):
        v = s.next()
        if v != x:
            raise Exception('expected %r got %r in %s' % (x, v, ' '.join(s.t)))


ATTRS = {'noundef', 'nonnull', 'zeroext', 'signext', 'inbounds', 'nsw', 'nuw', 'exact', 'nocapture',
         'readonly', 'readnone', 'writeonly', 'noalias', 'returned', 'immarg', 'dso_local', 'internal',
         'private', 'unnamed_addr', 'local_unnamed_addr', 'constant', 'global', 'external', 'common', 'tail',
         'musttail', 'notail', 'volatile', 'nnan', 'ninf', 'nsz', 'arcp', 'contract', 'afn', 'reassoc', 'fast',
         'noreturn', 'nounwind', 'hidden', 'weak', 'linkonce_odr', 'available_externally', 'extern_weak',
         'nofree', 'nosync', 'willreturn', 'mustprogress', 'inreg', 'sret', 'nest'}


def ptype(p):
    t = p.next()
    if t == 'void':
        ty = ('void',)
    elif t == 'double':
        ty = ('f', 64)
    elif t == 'float':
        ty = ('f', 32)
    elif t == 'x86_fp80':
        ty = ('f', 80)
    elif t[0] == 'i' and t[1:].isdigit():
        ty = ('i', int(t[1:]))
    elif t[0] == '%':
        ty = ('named', t)
    elif t == '[':
        n = int(p.next())
        p.expect('x')
        el = ptype(p)
        p.expect(']')
        ty = ('arr', n, el)
    elif t == '{':
        els = []
        if not p.eat('}'):
            while True:
                els.append(ptype(p))
                if p.eat('}'):
                    break
                p.expect(',')
        ty = ('struct', tuple(els))
    elif t == '<':
        if p.peek() == '{':
            p.expect('{')
            els = []
            if not p.eat('}'):
                while True:
                    els.append(ptype(p))
                    if p.eat('}'):
                        break
                    p.expect(',')
            p.expect('>')
            ty = ('struct', tuple(els), 'packed')
        else:
            raise Exception('vector types are not supported: ' + ' '.join(p.t))
    elif t == 'opaque':
        ty = ('opaque',)
    elif t == 'metadata':
        ty = ('md',)
    else:
        raise Exception('type? ' + t + ' in ' + ' '.join(p.t))
    while True:
        if p.eat('*'):
            ty = ('ptr', ty)
        elif p.peek() == '(':
            p.next()
            args = []
            if not p.eat(')'):
                while True:
                    if p.eat('...'):
                        args.append('...')
                    else:
                        args.append(ptype(p))
                    if p.eat(')'):
                        break
                    p.expect(',')
            ty = ('fn', ty, tuple(args))
        else:
            break
    return ty


CEXPR = {'getelementptr', 'bitcast', 'ptrtoint', 'inttoptr', 'sub', 'add', 'mul', 'and', 'or', 'xor', 'shl',
         'lshr', 'trunc', 'zext', 'sext', 'icmp', 'select'}


def pval(p, ty):
    """operand: ('reg',n) ('int',v) ('flt',v) ('null',) ('glob',n) ('undef',) ('zero',) ('cgep',..)
    ('ccast',op,val,srcty,dstty) ('cbin',op,a,b,ty) ('agg',[(ty,val)..]) ('str',bytes)"""
    t = p.next()
    c = t[0]
    if c == '%':
        return ('reg', t)
    if c == '@':
        return ('glob', t)
    if t == 'null':
        return ('null',)
    if t in ('undef', 'poison'):
        return ('undef',)
    if t == 'zeroinitializer':
        return ('zero',)
    if t == 'true':
        return ('int', 1)
    if t == 'false':
        return ('int', 0)
    if c == 'c' and t[1:2] == '"':
        raw = t[2:-1]
        out = bytearray()
        i = 0
        while i < len(raw):
            if raw[i] == '\\':
                out.append(int(raw[i + 1:i + 3], 16))
                i += 3
            else:
                out.append(ord(raw[i]))
                i += 1
        return ('str', bytes(out))
    if t in CEXPR:
        while p.peek() in ATTRS:
            p.next()
        p.expect('(')
        if t == 'getelementptr':
            bty = ptype(p)
            p.expect(',')
            pty = ptype(p)
            base = pval(p, pty)
            idx = []
            while p.eat(','):
                while p.peek() == 'inrange':
                    p.next()
                ity = ptype(p)
                idx.append((ity, pval(p, ity)))
            p.expect(')')
            return ('cgep', bty, base, idx)
        if t in ('bitcast', 'ptrtoint', 'inttoptr', 'trunc', 'zext', 'sext'):
            sty = ptype(p)
            v = pval(p, sty)
            p.expect('to')
            dty = ptype(p)
            p.expect(')')
            return ('ccast', t, v, sty, dty)
        if t in ('icmp', 'select'):
            raise Exception('constant ' + t + ' not supported')
        a_ty = ptype(p)
        a = pval(p, a_ty)
        p.expect(',')
        b_ty = ptype(p)
        b = pval(p, b_ty)
        p.expect(')')
        return ('cbin', t, a, b, a_ty)
    if c == '{' or c == '[' or (c == '<' and p.peek() == '{'):
        close = {'{': '}', '[': ']', '<': '}'}[c]
        if c == '<':
            p.expect('{')
        els = []
        if not p.eat(close):
            while True:
                ety = ptype(p)
                els.append((ety, pval(p, ety)))
                if p.eat(close):
                    break
                p.expect(',')
        if c == '<':
            p.expect('>')
        return ('agg', els)
    if ty and ty[0] == 'f':
        if t.startswith('0x'):
            if t[2:3] in 'KLMHR':
                raise Exception('long double constants not supported')
            return ('flt', _st.unpack('>d', bytes.fromhex(t[2:].rjust(16, '0')))[0])
        return ('flt', float(t))
    if t.lstrip('-').isdigit():
        return ('int', int(t))
    raise Exception('value? ' + t + ' :: ' + ' '.join(p.t))


def skipattrs(p):
    while True:
        a = p.peek()
        if a is None:
            return
        if a in ATTRS:
            p.next()
        elif a == 'align':
            p.next()
            p.next()
        elif a in ('dereferenceable', 'dereferenceable_or_null', 'byval', 'sret', 'align', 'elementtype'):
            p.next()
            if p.eat('('):
                depth = 1
                while depth:
                    x = p.next()
                    if x == '(':
                        depth += 1
                    elif x == ')':
                        depth -= 1
        else:
            return


_MD = re.compile(r', ![\w.]+ !\d+')
_ATTRNUM = re.compile(r' #\d+$')

BINOPS = {'add', 'sub', 'mul', 'udiv', 'sdiv', 'urem', 'srem', 'and', 'or', 'xor', 'shl', 'lshr', 'ashr',
          'fadd', 'fsub', 'fmul', 'fdiv', 'frem'}
CASTS = {'bitcast', 'ptrtoint', 'inttoptr', 'zext', 'sext', 'trunc', 'uitofp', 'sitofp', 'fptoui', 'fptosi',
         'fpext', 'fptrunc'}


def pinstr(toks):
    p = P(toks)
    dst = None
    if len(toks) > 1 and toks[1] == '=':
        dst = p.next()
        p.next()
    op = p.next()
    while op in ('tail', 'musttail', 'notail'):
        op = p.next()
    if op in BINOPS:
        flags = set()
        while p.peek() in ATTRS:
            flags.add(p.next())
        ty = ptype(p)
        a = pval(p, ty)
        p.expect(',')
        b = pval(p, ty)
        return (op, dst, ty, a, b, frozenset(flags))
    skipattrs(p)
    if op in ('icmp', 'fcmp'):
        pred = p.next()
        ty = ptype(p)
        a = pval(p, ty)
        p.expect(',')
        b = pval(p, ty)
        return (op, dst, pred, ty, a, b)
    if op == 'load':
        if p.eat('atomic'):
            skipattrs(p)
        ty = ptype(p)
        p.expect(',')
        pty = ptype(p)
        a = pval(p, pty)
        return (op, dst, ty, a)
    if op == 'store':
        if p.eat('atomic'):
            skipattrs(p)
        ty = ptype(p)
        v = pval(p, ty)
        p.expect(',')
        pty = ptype(p)
        a = pval(p, pty)
        return (op, ty, v, a)
    if op == 'getelementptr':
        bty = ptype(p)
        p.expect(',')
        pty = ptype(p)
        base = pval(p, pty)
        idx = []
        while p.eat(','):
            ity = ptype(p)
            idx.append((ity, pval(p, ity)))
        return (op, dst, bty, base, idx)
    if op in CASTS:
        sty = ptype(p)
        v = pval(p, sty)
        p.expect('to')
        dty = ptype(p)
        return (op, dst, sty, v, dty)
    if op == 'br':
        if p.peek() == 'label':
            p.next()
            return ('jmp', p.next())
        ty = ptype(p)
        c = pval(p, ty)
        p.expect(',')
        p.expect('label')
        a = p.next()
        p.expect(',')
        p.expect('label')
        b = p.next()
        return ('br', c, a, b)
    if op == 'ret':
        ty = ptype(p)
        if ty == ('void',):
            return ('ret', None, None)
        return ('ret', ty, pval(p, ty))
    if op == 'phi':
        ty = ptype(p)
        inc = []
        while True:
            p.expect('[')
            v = pval(p, ty)
            p.expect(',')
            b = p.next()
            p.expect(']')
            inc.append((v, b))
            if not p.eat(','):
                break
        return ('phi', dst, ty, inc)
    if op == 'select':
        cty = ptype(p)
        c = pval(p, cty)
        p.expect(',')
        ty = ptype(p)
        a = pval(p, ty)
        p.expect(',')
        ty2 = ptype(p)
        b = pval(p, ty2)
        return (op, dst, ty, c, a, b)
    if op == 'call':
        rty = ptype(p)  # may be a full function type for varargs callees
        if rty[0] == 'ptr' and rty[1][0] == 'fn':
            rty = rty[1][1]
        elif rty[0] == 'fn':
            rty = rty[1]
        f = pval(p, None)
        p.expect('(')
        args = []
        if not p.eat(')'):
            while True:
                aty = ptype(p)
                skipattrs(p)
                args.append((aty, pval(p, aty)))
                if p.eat(')'):
                    break
                p.expect(',')
        return ('call', dst, rty, f, args)
    if op == 'alloca':
        ty = ptype(p)
        cnt = None
        if p.eat(','):
            if p.peek() != 'align':
                cty = ptype(p)
                cnt = (cty, pval(p, cty))
        return ('alloca', dst, ty, cnt)
    if op == 'unreachable':
        return ('unreachable',)
    if op == 'switch':
        ty = ptype(p)
        v = pval(p, ty)
        p.expect(',')
        p.expect('label')
        d = p.next()
        p.expect('[')
        cases = []
        while not p.eat(']'):
            cty = ptype(p)
            cv = pval(p, cty)
            p.expect(',')
            p.expect('label')
            cases.append((cv, p.next()))
        return ('switch', ty, v, d, cases)
    if op == 'fneg':
        while p.peek() in ATTRS:
            p.next()
        ty = ptype(p)
        return ('fneg', dst, ty, pval(p, ty))
    if op == 'atomicrmw':
        p.eat('volatile')
        aop = p.next()
        pty = ptype(p)
        a = pval(p, pty)
        p.expect(',')
        ty = ptype(p)
        v = pval(p, ty)
        return ('atomicrmw', dst, aop, ty, a, v)
    if op == 'extractvalue' or op == 'insertvalue':
        raise Exception('aggregate SSA values not supported: ' + ' '.join(toks))
    raise Exception('instr? ' + op + ' :: ' + ' '.join(toks))


_GLOBAL = re.compile(r'^(@[-\w.$]+|@"[^"]*") = (.*)$')


def parse_global(M, name, rest):
    toks = tokenize(rest)
    p = P(toks)
    tls = False
    const = False
    external = False
    while True:
        t = p.peek()
        if t in ('global', 'constant'):
            const = (t == 'constant')
            p.next()
            break
        if t == 'thread_local':
            tls = True
            p.next()
            if p.eat('('):
                p.next()
                p.expect(')')
            continue
        if t in ('external', 'extern_weak'):
            external = True
        if t == 'addrspace':
            raise Exception('addrspace')
        p.next()
    ty = ptype(p)
    init = None
    if not external and p.peek() not in (None, ','):
        init = pval(p, ty)
    M.globals[name] = {'ty': ty, 'init': init, 'tls': tls, 'const': const, 'external': external}


def parse(path):
    M = Mod()
    cur = None
    blk = None
    pending = None
    for raw in open(path):
        line = raw.rstrip('\n')
        if not line:
            continue
        if pending is not None:
            pending += ' ' + line.strip()
            if line.strip() != ']':
                continue
            line = pending
            pending = None
        elif cur is not None and line.lstrip().startswith('switch ') and line.rstrip().endswith('['):
            pending = line
            continue
        c0 = line[0]
        if cur is None:
            if c0 == ';' or c0 == '!' or line.startswith(('source_filename', 'target', 'attributes')):
                continue
            if c0 == '%' and ' = type ' in line:
                name, rest = line.split(' = type ', 1)
                M.structs[name] = ptype(P(tokenize(rest)))
                continue
            if c0 == '@':
                m = _GLOBAL.match(line)
                parse_global(M, m.group(1), m.group(2))
                continue
            if line.startswith('declare'):
                m = re.search(r'(@[-\w.$]+)\(', line)
                M.decls.add(m.group(1))
                continue
            if line.startswith('define'):
                toks = tokenize(line)
                i = 0
                while not toks[i].startswith('@'):
                    i += 1
                name = toks[i]
                p = P(toks)
                p.i = i + 1
                p.expect('(')
                params = []
                vararg = False
                if not p.eat(')'):
                    while True:
                        if p.eat('...'):
                            vararg = True
                        else:
                            pty = ptype(p)
                            skipattrs(p)
                            params.append((p.next(), pty))
                        if p.eat(')'):
                            break
                        p.expect(',')
                cur = {'name': name, 'params': [a for a, _ in params], 'ptypes': [b for _, b in params],
                       'blocks': {}, 'order': [], 'vararg': vararg}
                M.funcs[name] = cur
                blk = None
                continue
            continue
        if line == '}':
            cur = None
            continue
        if c0 != ' ':
            m = re.match(r'^([-\w.$]+):', line)
            if m:
                blk = '%' + m.group(1)
                cur['blocks'][blk] = []
                cur['order'].append(blk)
                continue
        if blk is None:
            blk = '%entry0'
            cur['blocks'][blk] = []
            cur['order'].append(blk)
        line = _MD.sub('', line)
        line = _ATTRNUM.sub('', line)
        toks = tokenize(line)
        if not toks:
            continue
        cur['blocks'][blk].append(pinstr(toks))
    for n in M.funcs:
        M.decls.discard(n)
    return M
