# e2.py - E2: CBMC on leaf units of the real sources, with native replay of counterexamples.
import os, sys, json, subprocess, time, re, resource
sys.path.insert(0, os.path.dirname(os.path.abspath(__file__)))
import build

CB = os.path.join(build.VERIF, 'cbmc')
STUBINC = os.path.join(CB, 'stubinc')


def goto_cc(d, src, defs=(), name=None, extra_inc=(), remove_bodies=()):
    name = name or (os.path.basename(src)[:-2] + '.' + '_'.join(x.replace('=', '-') for x in defs))[:120]
    out = os.path.join(d, name + '.gb')
    cmd = ['goto-cc', '-D' + build.GUARD] + build.RELEASE_FLAGS + ['-I' + STUBINC] + build.incflags(d) + ['-I' + CB] + \
          ['-I' + x for x in extra_inc] + ['-D' + x for x in defs] + ['--function', 'harness', '-o', out, src]
    build.sh(cmd)
    if remove_bodies:
        out2 = out[:-3] + '.nb.gb'
        cmd = ['goto-instrument']
        for f in remove_bodies:
            cmd += ['--remove-function-body', f]
        build.sh(cmd + [out, out2])
        return out2
    return out


def _limit():
    try:
        resource.setrlimit(resource.RLIMIT_AS, (24 << 30, 24 << 30))
    except Exception:
        pass


def cbmc(gb, unwind=2, flags=(), backend=(), timeout=600, function='harness', unwindset=None):
    """returns dict(status, props:[{name, desc, status}], traces:{propname: inputs}, wall_s, raw_tail)"""
    cmd = ['cbmc', gb, '--function', function, '--drop-unused-functions', '--unwinding-assertions', '--no-malloc-may-fail',
           '--json-ui', '--trace']
    if unwind is not None:
        cmd += ['--unwind', str(unwind)]
    if unwindset:
        cmd += ['--unwindset', unwindset]
    cmd += list(flags) + list(backend)
    t0 = time.time()
    try:
        r = subprocess.run(cmd, stdout=subprocess.PIPE, stderr=subprocess.PIPE, text=True, timeout=timeout, preexec_fn=_limit)
        out = r.stdout
        rc = r.returncode
    except subprocess.TimeoutExpired:
        return {'status': 'timeout', 'props': [], 'traces': {}, 'wall_s': round(time.time() - t0, 2), 'raw_tail': '', 'cmd': ' '.join(cmd)}
    wall = round(time.time() - t0, 2)
    res = {'status': 'error', 'props': [], 'traces': {}, 'wall_s': wall, 'raw_tail': out[-1500:] + r.stderr[-500:], 'cmd': ' '.join(cmd)}
    try:
        js = json.loads(out)
    except Exception:
        return res
    for item in js:
        if 'result' in item:
            for p in item['result']:
                res['props'].append({'name': p.get('property'), 'desc': p.get('description'), 'status': p.get('status'),
                                     'line': (p.get('sourceLocation') or {}).get('line'), 'file': (p.get('sourceLocation') or {}).get('file')})
                if p.get('status') == 'FAILURE' and 'trace' in p:
                    res['traces'][p.get('property')] = trace_inputs(p['trace'])
        if 'cProverStatus' in item:
            res['status'] = item['cProverStatus']
        if item.get('messageType') == 'ERROR':
            res['error'] = item.get('messageText')
    return res


def trace_inputs(trace):
    """first assignment to each harness input (file-scope variables assigned from nondet_*): name -> uint64 bits"""
    ins = {}
    for st in trace:
        if st.get('stepType') != 'assignment':
            continue
        lhs = st.get('lhs')
        val = st.get('value') or {}
        if lhs is None or 'binary' not in val:
            continue
        if st.get('hidden') and not lhs.startswith('in_'):
            continue
        if not lhs.startswith('in_'):
            continue
        b = val['binary'].replace(' ', '')
        lhs = re.sub(r'\[(\d+)l+\]', r'[\1]', lhs)
        try:
            ins[lhs] = int(b, 2)      # the last assignment wins (the first one is static zero-initialisation)
        except ValueError:
            pass
    return ins


def native_replay(d, src, defs, inputs, extra_src=(), link_lib=False, name=None, san=True):
    name = name or ('e2nat.' + os.path.basename(src)[:-2] + '.' + '_'.join(x.replace('=', '-') for x in defs))[:120]
    exe = os.path.join(d, name)
    if not os.path.exists(exe):
        cmd = ['gcc', '-O1', '-g', '-DE2_NATIVE=1', '-D' + build.GUARD] + build.RELEASE_FLAGS + build.incflags(d) + ['-I' + CB] + \
              ['-D' + x for x in defs] + (['-fsanitize=address,undefined'] if san else []) + ['-o', exe, src, os.path.join(CB, 'e2_native.c')] + list(extra_src)
        if link_lib:
            cmd += [build.native_lib(d, san=san)]
        cmd += ['-lm', '-lpthread']
        build.sh(cmd)
    inp = exe + '.in'
    with open(inp, 'w') as f:
        for k, v in inputs.items():
            f.write('%s %d\n' % (k, v))
    env = dict(os.environ, E2_REPLAY=inp, ASAN_OPTIONS='detect_leaks=0:exitcode=66', UBSAN_OPTIONS='halt_on_error=1:exitcode=67:print_stacktrace=1')
    try:
        r = subprocess.run([exe], env=env, stdout=subprocess.PIPE, stderr=subprocess.PIPE, text=True, timeout=60, errors='replace')
    except subprocess.TimeoutExpired:
        return {'rc': -999, 'fails': [], 'out': 'TIMEOUT'}
    fails = [l[12:] for l in r.stdout.splitlines() if l.startswith('ASSERT-FAIL ')]
    return {'rc': r.returncode, 'fails': fails, 'assume_fail': 'ASSUME-FAIL' in r.stdout, 'out': r.stdout[-500:], 'err': r.stderr[-800:]}


def run_harness(check, d, title, src, defs=(), unwind=2, flags=(), backend=(), timeout=600, witness_defs=('WITNESS=1',),
                link_lib=False, extra_src=(), replay=True, family=None, unwindset=None, expect_witness=True, remove_bodies=()):
    """compile + run one CBMC harness and its witness twin; digest into check (a checklib.Check)"""
    family = family or title
    t0 = time.time()
    part = {'part': title, 'engine': 'E2 cbmc', 'source': os.path.relpath(src, build.VERIF), 'defs': list(defs), 'unwind': unwind,
            'backend': ' '.join(backend) or 'default SAT (minisat)', 'flags': list(flags)}
    viols, problems, samples = [], [], []
    try:
        gb = goto_cc(d, src, defs, remove_bodies=remove_bodies)
    except Exception as e:
        part['error'] = str(e)[-800:]
        check.add_part(part, 1, 0, problems=['%s: goto-cc failed: %s' % (title, str(e)[-600:])])
        return
    r = cbmc(gb, unwind, flags, backend, timeout, unwindset=unwindset)
    part.update({'status': r['status'], 'wall_s': r['wall_s'], 'properties': len(r['props']),
                 'failed': [p['desc'] for p in r['props'] if p['status'] == 'FAILURE'][:10], 'cmd': r.get('cmd')})
    nob = len(r['props'])
    ndis = sum(1 for p in r['props'] if p['status'] == 'SUCCESS')
    if r['status'] not in ('success', 'failure'):
        problems.append('%s: cbmc gave no verdict (%s) %s' % (title, r['status'], r.get('error') or r['raw_tail'][-300:]))
    for p in r['props']:
        if p['status'] != 'FAILURE':
            continue
        if 'unwinding assertion' in (p['desc'] or ''):
            problems.append('%s: unwinding assertion failed (bound %s too small): %s' % (title, unwind, p['name']))
            continue
        inputs = r['traces'].get(p['name'], {})
        v = {'family': family, 'part': title, 'kind': 'assert' if (p['file'] or '').startswith(CB) else 'cbmc-check', 'label': p['desc'] or '', 'msg': p['desc'] or '',
             'where': '%s:%s' % (os.path.basename(p['file'] or '?'), p['line']), 'tags': {}, 'inputs': inputs, 'engine': 'cbmc',
             'e2': {'source': os.path.relpath(src, build.VERIF), 'defs': list(defs)}}
        if replay:
            try:
                o = native_replay(d, src, defs, inputs, extra_src=extra_src, link_lib=link_lib)
                v['replay'] = {'rc': o['rc'], 'fails': o['fails'][:6], 'confirmed': (p['desc'] in o['fails']) or o['rc'] in (66, 67, -6, -11),
                               'assume_fail': o.get('assume_fail'), 'err': o.get('err', '')[-300:]}
            except Exception as e:
                v['replay'] = {'error': str(e)[-400:], 'confirmed': False}
        viols.append(v)
    if len(samples) < 2:
        samples.append({'harness': title, 'properties_checked': [p['desc'] for p in r['props'][:6]], 'unwind': unwind})
    # vacuity guard: the witness twin's assertion must fail
    wq = 0
    if witness_defs is not None and expect_witness:
        try:
            wgb = goto_cc(d, src, tuple(defs) + tuple(witness_defs), remove_bodies=remove_bodies)
            wr = cbmc(wgb, unwind, flags, backend, timeout, unwindset=unwindset)
            hit = any(p['status'] == 'FAILURE' and 'WITNESS' in (p['desc'] or '') for p in wr['props'])
            part['witness'] = 'violated (reachable)' if hit else 'NOT violated'
            part['witness_wall_s'] = wr['wall_s']
            if not hit:
                problems.append('%s: reachability witness not violated (status %s): harness vacuous or no verdict' % (title, wr['status']))
            wq = 1
        except Exception as e:
            problems.append('%s: witness build failed: %s' % (title, str(e)[-300:]))
    part['wall_s_total'] = round(time.time() - t0, 2)
    check.add_part(part, nob, ndis, violations=viols, problems=problems, samples=samples, queries=1 + wq,
                   solver_s=r['wall_s'], states=max(1, nob), transitions=max(1, nob))


# ---------------------------------------------------------------------------------------------------------------------
# running E2 harnesses in a child process while the parent explores the E1 families
class _Recorder:
    """stands in for a checklib.Check inside the child: records the add_part calls"""
    def __init__(s):
        s.calls = []

    def add_part(s, part, obligations, discharged, **kw):
        s.calls.append((part, obligations, discharged, kw))


def spawn(d, specs):
    """specs: list of dict(title, src, defs, unwind, timeout, backend, link_lib, flags).  returns a handle for collect()"""
    import pickle, tempfile
    fd, spec_path = tempfile.mkstemp(prefix='e2spec.', dir=d)
    os.close(fd)
    with open(spec_path, 'wb') as f:
        pickle.dump({'d': d, 'specs': specs}, f)
    out_path = spec_path + '.out'
    env = dict(os.environ, VERIF_KEEP='1')        # the parent owns the scratch directory
    p = subprocess.Popen([sys.executable, os.path.abspath(__file__), '--worker', spec_path, out_path], env=env,
                         stdout=subprocess.PIPE, stderr=subprocess.STDOUT, text=True)
    return {'proc': p, 'out': out_path, 'specs': specs}


def collect(check, handle):
    import pickle
    log, _ = handle['proc'].communicate()
    if handle['proc'].returncode != 0 or not os.path.exists(handle['out']):
        check.add_part({'part': 'E2 worker', 'error': (log or '')[-800:]}, 1, 0, problems=['E2 worker failed: ' + (log or '')[-600:]])
        return
    with open(handle['out'], 'rb') as f:
        calls = pickle.load(f)
    for part, ob, dis, kw in calls:
        check.add_part(part, ob, dis, **kw)


def _worker(spec_path, out_path):
    import pickle
    from concurrent.futures import ThreadPoolExecutor
    with open(spec_path, 'rb') as f:
        job = pickle.load(f)
    recs = []

    def one(sp):
        r = _Recorder()
        run_harness(r, job['d'], sp['title'], sp['src'], sp.get('defs', ()), unwind=sp.get('unwind', 2), flags=sp.get('flags', ()),
                    backend=sp.get('backend', ()), timeout=sp.get('timeout', 600), link_lib=sp.get('link_lib', False))
        return r.calls
    with ThreadPoolExecutor(max_workers=max(1, min(4, len(job['specs'])))) as ex:
        for calls in ex.map(one, job['specs']):
            recs += calls
    with open(out_path, 'wb') as f:
        pickle.dump(recs, f)


if __name__ == '__main__' and len(sys.argv) >= 4 and sys.argv[1] == '--worker':
    _worker(sys.argv[2], sys.argv[3])
