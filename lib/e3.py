# e3.py - E3: bit-precise semantics of the assembled context switch (nasm object of the tree) as z3 terms,
# and the obligations T1 (round trip), T2 (frame condition), T3 (initial frame / trampoline).
import os, re, subprocess, time, sys
sys.path.insert(0, os.path.dirname(os.path.abspath(__file__)))
import z3
import build

REGS = ['rax', 'rbx', 'rcx', 'rdx', 'rsi', 'rdi', 'rbp', 'rsp', 'r8', 'r9', 'r10', 'r11', 'r12', 'r13', 'r14', 'r15']
CALLEE_SAVED = ['rbx', 'rbp', 'r12', 'r13', 'r14', 'r15']
ARITH_FLAGS = 0x8D5          # CF PF AF ZF SF OF
POPF_MASK = 0x244DD5         # CF PF AF ZF SF TF DF OF NT AC ID (what popfq changes at CPL 3, IOPL < 3)
PUSHF_MASK = 0xFCFFFF        # VM and RF are pushed as 0
DF = 1 << 10


def disassemble(asm_path, d):
    obj = os.path.join(d, 'ctx.o')
    build.sh(['nasm', '-f', 'elf64', asm_path, '-o', obj])
    out = build.sh(['objdump', '-d', '-M', 'intel', '--no-show-raw-insn', obj])
    funcs = {}
    cur = None
    for line in out.splitlines():
        m = re.match(r'^[0-9a-f]+ <([\w.]+)>:', line)
        if m:
            cur = m.group(1)
            funcs[cur] = []
            continue
        m = re.match(r'^\s*([0-9a-f]+):\s+(\S+)\s*(.*)$', line)
        if m and cur:
            ops = [o.strip() for o in m.group(3).split(',')] if m.group(3).strip() else []
            funcs[cur].append((int(m.group(1), 16), m.group(2), ops))
    return funcs


class Unmodelled(Exception):
    pass


class Machine:
    """symbolic x86-64 user state"""

    def __init__(s, prefix):
        s.r = {n: z3.BitVec('%s_%s' % (prefix, n), 64) for n in REGS}
        s.flags = z3.BitVec(prefix + '_rflags', 64)
        s.mxcsr = z3.BitVec(prefix + '_mxcsr', 32)
        s.mem = z3.Array(prefix + '_mem', z3.BitVecSort(64), z3.BitVecSort(8))
        s.writes = []        # (address term, nbytes)
        s.nfresh = 0
        s.prefix = prefix
        s.side = []          # side conditions required for the instruction not to fault
        s.rip = None

    def fresh(s, w, what):
        s.nfresh += 1
        return z3.BitVec('%s_%s_%d' % (s.prefix, what, s.nfresh), w)

    def load(s, addr, n):
        bs = [z3.Select(s.mem, addr + i) for i in range(n)]
        bs.reverse()
        return z3.Concat(*bs) if n > 1 else bs[0]

    def store(s, addr, n, val):
        for i in range(n):
            s.mem = z3.Store(s.mem, addr + i, z3.Extract(8 * i + 7, 8 * i, val))
        s.writes.append((addr, n))

    def havoc_arith_flags(s):
        s.flags = (s.flags & ~z3.BitVecVal(ARITH_FLAGS, 64)) | (s.fresh(64, 'fl') & ARITH_FLAGS)

    def memop(s, op):
        m = re.match(r'^(QWORD|DWORD) PTR \[(\w+)(?:([+-])0x([0-9a-f]+))?\]$', op)
        if not m:
            raise Unmodelled('memory operand ' + op)
        if m.group(2) not in s.r:
            raise Unmodelled('base register ' + m.group(2))
        a = s.r[m.group(2)]
        if m.group(3):
            k = int(m.group(4), 16)
            a = a + k if m.group(3) == '+' else a - k
        return a, 8 if m.group(1) == 'QWORD' else 4

    def step(s, ins):
        """execute one instruction; returns None, or ('call'|'jmp'|'ret', target)"""
        addr, mn, ops = ins
        R = s.r
        if mn == 'pushf' or mn == 'pushfq':
            R['rsp'] = R['rsp'] - 8
            s.store(R['rsp'], 8, s.flags & PUSHF_MASK)
            return None
        if mn == 'popf' or mn == 'popfq':
            v = s.load(R['rsp'], 8)
            R['rsp'] = R['rsp'] + 8
            s.flags = (s.flags & ~z3.BitVecVal(POPF_MASK, 64)) | (v & POPF_MASK)
            return None
        if mn == 'push' and len(ops) == 1 and ops[0] in R:
            v = R[ops[0]]
            R['rsp'] = R['rsp'] - 8
            s.store(R['rsp'], 8, v)
            return None
        if mn == 'pop' and len(ops) == 1 and ops[0] in R:
            v = s.load(R['rsp'], 8)
            R['rsp'] = R['rsp'] + 8
            R[ops[0]] = v
            return None
        if mn in ('sub', 'add') and len(ops) == 2 and ops[0] in R and re.match(r'^0x[0-9a-f]+$', ops[1]):
            k = int(ops[1], 16)
            R[ops[0]] = R[ops[0]] - k if mn == 'sub' else R[ops[0]] + k
            s.havoc_arith_flags()
            return None
        if mn == 'stmxcsr' and len(ops) == 1:
            a, n = s.memop(ops[0])
            if n != 4:
                raise Unmodelled('stmxcsr width')
            s.store(a, 4, s.mxcsr)
            return None
        if mn == 'ldmxcsr' and len(ops) == 1:
            a, n = s.memop(ops[0])
            if n != 4:
                raise Unmodelled('ldmxcsr width')
            v = s.load(a, 4)
            s.side.append(('ldmxcsr: reserved bits 16..31 must be zero (#GP otherwise)', z3.Extract(31, 16, v) == 0))
            s.mxcsr = v
            return None
        if mn == 'mov' and len(ops) == 2:
            if ops[0] in R and ops[1] in R:
                R[ops[0]] = R[ops[1]]
                return None
            if ops[0] in R:
                a, n = s.memop(ops[1])
                if n != 8:
                    raise Unmodelled('mov width')
                R[ops[0]] = s.load(a, 8)
                return None
            if ops[1] in R:
                a, n = s.memop(ops[0])
                if n != 8:
                    raise Unmodelled('mov width')
                s.store(a, 8, R[ops[1]])
                return None
        if mn in ('and', 'or', 'xor') and len(ops) == 2 and ops[0] not in R and re.match(r'^0x[0-9a-f]+$', ops[1]):
            # logical operation on a memory operand with an immediate (e.g. masking the saved MXCSR image)
            a, n = s.memop(ops[0])
            k = int(ops[1], 16)
            if n == 8 and k >= 1 << 31:
                k |= 0xFFFFFFFF00000000 if k < 1 << 32 else 0      # imm32 is sign-extended for a 64-bit operand
            v = s.load(a, n)
            kv = z3.BitVecVal(k & ((1 << (8 * n)) - 1), 8 * n)
            s.store(a, n, v & kv if mn == 'and' else v | kv if mn == 'or' else v ^ kv)
            s.havoc_arith_flags()
            return None
        if mn in ('and', 'or') and len(ops) == 2 and ops[0] in R and re.match(r'^0x[0-9a-f]+$', ops[1]):
            k = int(ops[1], 16)
            kv = z3.BitVecVal(k, 64)
            R[ops[0]] = R[ops[0]] & kv if mn == 'and' else R[ops[0]] | kv
            s.havoc_arith_flags()
            return None
        if mn == 'xor' and len(ops) == 2 and ops[0] in R and ops[0] == ops[1]:
            R[ops[0]] = z3.BitVecVal(0, 64)
            s.havoc_arith_flags()
            return None
        if mn == 'call' and len(ops) == 1 and ops[0] in R:
            tgt = R[ops[0]]
            R['rsp'] = R['rsp'] - 8
            s.store(R['rsp'], 8, z3.BitVecVal(0xC0DE0000 + addr + 3, 64))   # return address (symbolic value irrelevant)
            return ('call', tgt)
        if mn == 'jmp' and len(ops) == 1 and ops[0] in R:
            return ('jmp', R[ops[0]])
        if mn == 'ret' and not ops:
            tgt = s.load(R['rsp'], 8)
            R['rsp'] = R['rsp'] + 8
            return ('ret', tgt)
        raise Unmodelled('instruction form not in the semantics table: %s %s' % (mn, ', '.join(ops)))


_QUEUE = []


def _solve(i):
    name, premises, goal, timeout_ms = _QUEUE[i]
    sv = z3.Solver()
    sv.set('timeout', timeout_ms)
    sv.add(*premises)
    t = time.time()
    r0 = sv.check()          # premises must be satisfiable (vacuity guard)
    sv.add(z3.Not(goal))
    r = sv.check()
    dt = time.time() - t
    res = {'name': name, 'premises_sat': str(r0), 'negated_goal': str(r), 'time_s': round(dt, 3)}
    if r == z3.sat:
        m = sv.model()
        res['model'] = {str(d): str(m[d]) for d in m.decls() if not str(d).endswith('_mem')}
    res['ok'] = (r0 == z3.sat and r == z3.unsat)
    return res


class Obligations:
    """obligations are queued by prove() and discharged together by run_all() in forked worker processes"""

    def __init__(s):
        s.results = []
        s.solver_s = 0.0
        s.pending = []

    def prove(s, name, premises, goal, timeout_ms=300000):
        s.pending.append([name, list(premises), goal, timeout_ms])
        return True

    def rename_pending(s, start, suffix):
        for p in s.pending[start:]:
            p[0] += suffix

    def run_all(s, ncores=None):
        import multiprocessing
        global _QUEUE
        _QUEUE = s.pending
        ncores = ncores or int(os.environ.get('VERIF_CORES') or os.cpu_count() or 16)
        if len(_QUEUE) == 0:
            return
        with multiprocessing.get_context('fork').Pool(min(ncores, len(_QUEUE))) as pool:
            res = pool.map(_solve, range(len(_QUEUE)), chunksize=1)
        s.results += res
        s.solver_s += sum(r['time_s'] for r in res)
        s.pending = []


def sane_stack(rsp):
    return z3.And(z3.UGE(rsp, 4096), z3.ULT(rsp, 1 << 62))


def run_until(m, code, start_idx, stop_pred):
    """execute instructions code[start_idx:] until stop_pred(ins) says stop (before executing it) or control leaves"""
    i = start_idx
    while i < len(code):
        ins = code[i]
        if stop_pred is not None and stop_pred(ins):
            return i, None
        ctl = m.step(ins)
        i += 1
        if ctl is not None:
            return i, ctl
    return i, None


def check_switch(funcs, ob):
    code = funcs['cmi_coroutine_context_switch']
    # locate the two halves: the store of rsp into [rdi] ends the first, the load of rsp from [rsi] begins the second
    idx_store = [i for i, c in enumerate(code) if c[1] == 'mov' and c[2] == ['QWORD PTR [rdi]', 'rsp']]
    idx_load = [i for i, c in enumerate(code) if c[1] == 'mov' and c[2] == ['rsp', 'QWORD PTR [rsi]']]
    if len(idx_store) != 1 or len(idx_load) != 1 or idx_load[0] != idx_store[0] + 1:
        raise Unmodelled('switch does not have the expected save-sp / load-sp pair')
    # ---- first half from arbitrary state A
    A = Machine('A')
    a0 = {n: A.r[n] for n in REGS}
    aflags, amx, amem0 = A.flags, A.mxcsr, A.mem
    run_until(A, code, 0, lambda ins: ins[0] == code[idx_load[0]][0])
    saved_sp = A.r['rsp']
    rsp0, rdi0 = a0['rsp'], a0['rdi']
    pre = [sane_stack(rsp0),
           z3.Or(z3.ULE(rdi0 + 8, rsp0 - 64), z3.UGE(rdi0, rsp0 + 8)), z3.ULT(rdi0, (1 << 62))]   # the slot is not inside the frame being saved
    ob.prove('T1a the saved context occupies exactly the 64 bytes below the return address', pre, saved_sp == rsp0 - 64)
    ob.prove('T1b the slot *old receives the saved stack pointer', pre, A.load(rdi0, 8) == saved_sp)
    # T2 frame condition of the first half
    x = z3.BitVec('x_any', 64)
    outside = z3.And(z3.Or(z3.ULT(x, rsp0 - 64), z3.UGE(x, rsp0)), z3.Or(z3.ULT(x, rdi0), z3.UGE(x, rdi0 + 8)))
    ob.prove('T2a first half writes only the 64 bytes below rsp and the 8 bytes at rdi', pre + [outside], z3.Select(A.mem, x) == z3.Select(amem0, x))
    # ---- second half from a havocked state B whose memory agrees with A's on the saved frame + return address
    B = Machine('B')
    b0 = {n: B.r[n] for n in REGS}
    bmem0 = B.mem
    agree = [z3.Select(B.mem, rsp0 + k) == z3.Select(A.mem, rsp0 + k) for k in range(-64, 8)]
    slot = [B.load(b0['rsi'], 8) == saved_sp]
    i, ctl = run_until(B, code, idx_load[0], None)
    if ctl is None or ctl[0] != 'ret':
        raise Unmodelled('second half does not end in ret')
    pre2 = pre + agree + slot
    for rname in CALLEE_SAVED:
        ob.prove('T1c round trip preserves ' + rname, pre2, B.r[rname] == a0[rname])
    ob.prove('T1d round trip preserves MXCSR', pre2, B.mxcsr == amx)
    ob.prove('T1e round trip preserves the user-visible RFLAGS bits', pre2 + [(aflags & ~z3.BitVecVal(PUSHF_MASK, 64)) == 0],
             (B.flags & POPF_MASK) == (aflags & POPF_MASK))
    ob.prove('T1f stack pointer after return = entry stack pointer + 8', pre2, B.r['rsp'] == rsp0 + 8)
    ob.prove('T1g control returns to the return address of the suspended call', pre2, ctl[1] == z3.Concat(*reversed([z3.Select(amem0, rsp0 + k) for k in range(8)])))
    ob.prove('T1h the value handed over (rdx of the resuming side) is returned in rax', pre2, B.r['rax'] == b0['rdx'])
    y = z3.BitVec('y_any', 64)
    ob.prove('T2b second half writes no memory', pre2, z3.Select(B.mem, y) == z3.Select(bmem0, y))
    for why, cond in B.side:
        ob.prove('T1i ' + why + ' (for a context saved by the first half)', pre2 + [z3.Extract(31, 16, amx) == 0], cond)
    return len(code)


def check_trampoline(funcs, ob, frame, facts):
    """frame: list of (offset from initial sp, nbytes, value term) written by the real cmi_coroutine_context_init
    (obtained by symbolically executing it with E1); facts: dict with sp (int), stack_lo, stack_hi, fn, cp, ctx, exitfn terms"""
    code = funcs['cmi_coroutine_context_switch']
    tramp = funcs['cmi_coroutine_trampoline']
    idx_load = [i for i, c in enumerate(code) if c[1] == 'mov' and c[2] == ['rsp', 'QWORD PTR [rsi]']][0]
    C = Machine('C')
    c0rsi = C.r['rsi']
    sp = z3.BitVecVal(facts['sp'], 64)
    pre = [C.load(c0rsi, 8) == sp]
    for off, n, val in frame:
        pre.append(C.load(sp + off, n) == val)
    mem0 = C.mem
    i, ctl = run_until(C, code, idx_load, None)
    if ctl is None or ctl[0] != 'ret':
        raise Unmodelled('switch second half does not end in ret')
    ob.prove('T3a first switch into a new coroutine returns into the trampoline', pre, ctl[1] == facts['trampoline'])
    for why, cond in C.side:
        ob.prove('T3b ' + why + ' (initial frame)', pre, cond)
    ob.prove('T3c initial MXCSR: round-to-nearest, no flush-to-zero/denormals-are-zero', pre, (C.mxcsr & 0xE040) == 0)
    ob.prove('T3d initial direction flag is clear', pre, (C.flags & DF) == 0)
    # trampoline up to the call
    j, ctl2 = run_until(C, tramp, 0, None)
    if ctl2 is None or ctl2[0] != 'call':
        raise Unmodelled('trampoline does not reach an indirect call')
    rsp_at_call = C.r['rsp'] + 8          # value before the call pushed the return address
    ob.prove('T3e trampoline calls the coroutine function', pre, ctl2[1] == facts['fn'])
    ob.prove('T3f first argument is the coroutine itself', pre, C.r['rdi'] == facts['cp'])
    ob.prove('T3g second argument is the context pointer', pre, C.r['rsi'] == facts['ctx'])
    ob.prove('T3h stack is 16-byte aligned at the call', pre, (rsp_at_call & 15) == 0)
    # the callee returns: callee-saved registers and rsp restored, caller-saved and arithmetic flags arbitrary
    ret_rax = C.fresh(64, 'retval')
    C.r['rax'] = ret_rax
    for n in ('rcx', 'rdx', 'rsi', 'rdi', 'r8', 'r9', 'r10', 'r11'):
        C.r[n] = C.fresh(64, n)
    C.r['rsp'] = rsp_at_call
    C.havoc_arith_flags()
    k, ctl3 = run_until(C, tramp, j, None)
    if ctl3 is None or ctl3[0] != 'jmp':
        raise Unmodelled('trampoline does not end in an indirect jump')
    ob.prove('T3i after the function returns control goes to the exit function', pre, ctl3[1] == facts['exitfn'])
    ob.prove('T3j the returned value is the argument of the exit function', pre, C.r['rdi'] == ret_rax)
    ob.prove('T3k stack alignment at entry of the exit function is that of a call (rsp = 8 mod 16)', pre, (C.r['rsp'] & 15) == 8)
    lo, hi = z3.BitVecVal(facts['stack_lo'], 64), z3.BitVecVal(facts['stack_hi'], 64)
    for a, n in C.writes:
        ob.prove('T3l trampoline-phase write of %d bytes stays inside the coroutine stack' % n, pre, z3.And(z3.UGE(a, lo), z3.ULE(a + n, hi)))
    return len(tramp)
