# symex.py - E1: path-wise symbolic execution of clang-14 IR of the real cimba sources with z3.
# See /verif/DESIGN.md section 2.  One Engine per (module, entry function); states are explored
# depth first; every feasible side of a symbolic branch becomes a state of its own.
import time, sys, os, math
import z3
from symmem import (Ptr, Fn, Cont, UNDEF, Violation, PathEnd, Inconclusive, ForkRequest, Memory,
                    f2bits, bits2f, f2real, FN_BASE)
import irparse

M64 = (1 << 64) - 1


class Frame:
    __slots__ = ('f', 'regs', 'ins', 'blk', 'prev', 'ip', 'dst', 'allocas', 'kind', 'aux', 'va')

    def __init__(s, f, regs):
        s.f = f
        s.regs = regs
        s.kind = 0          # 0 normal, 1 trampoline marker, 2 dead end (exit function returned), 3 thread root
        s.aux = None
        s.dst = None
        s.allocas = None
        s.prev = None
        s.va = None
        if f is not None:
            s.blk = f['order'][0]
            s.ins = f['blocks'][s.blk]
        else:
            s.blk = None
            s.ins = None
        s.ip = 0

    def copy(s):
        t = Frame.__new__(Frame)
        t.f = s.f
        t.regs = dict(s.regs)
        t.ins = s.ins
        t.blk = s.blk
        t.prev = s.prev
        t.ip = s.ip
        t.dst = s.dst
        t.allocas = list(s.allocas) if s.allocas else None
        t.kind = s.kind
        t.aux = s.aux
        t.va = s.va
        return t


class State:
    def __init__(s):
        s.mem = Memory()
        s.pc = []
        s.model = None
        s.syms = []          # (name, z3 var, kind)
        s.globs = {}
        s.stack = []
        s.conts = {}         # cid -> (owner, frames)
        s.next_cid = 1
        s.ninstr = 0
        s.notes = []
        s.tags = {}
        s.covers = set()
        s.viols = []         # violations found on this path (path continues under the asserted condition)
        s.threads = None     # C19: list of thread records
        s.cur_thread = 0
        s.tls = {}           # (thread, name) -> Ptr
        s.depth = 0
        s.extra = {}
        s.known = {}

    def fork(s):
        t = State.__new__(State)
        t.mem = s.mem.fork()
        t.pc = list(s.pc)
        t.model = s.model
        t.syms = list(s.syms)
        t.globs = dict(s.globs)
        t.stack = [f.copy() for f in s.stack]
        t.conts = dict(s.conts)
        t.next_cid = s.next_cid
        t.ninstr = s.ninstr
        t.notes = list(s.notes)
        t.tags = dict(s.tags)
        t.covers = set(s.covers)
        t.viols = list(s.viols)
        t.threads = [th.copy() for th in s.threads] if s.threads else None
        t.cur_thread = s.cur_thread
        t.tls = dict(s.tls)
        t.depth = s.depth + 1
        t.extra = dict(s.extra)
        t.known = dict(s.known)
        return t


def is_sym(v):
    return isinstance(v, z3.ExprRef)


def bvw(v, w):
    if isinstance(v, int):
        return z3.BitVecVal(v, w)
    if isinstance(v, (Ptr, Fn)):
        return z3.BitVecVal(v.addr(), w)
    if z3.is_bool(v):
        return z3.If(v, z3.BitVecVal(1, w), z3.BitVecVal(0, w))
    return v


def sgn(a, w):
    return a - (1 << w) if a >> (w - 1) else a


def realv(x):
    return f2real(x) if isinstance(x, float) else x


class PModel:
    """partial model: variable id -> (variable, value); merged from the models of independent slices"""
    __slots__ = ('vals',)

    def __init__(s, vals=None):
        s.vals = vals if vals is not None else {}

    def eval(s, e, completion=False):
        subs = []
        for vid, var in free_vars(e):
            ent = s.vals.get(vid)
            if ent is not None:
                subs.append((var, ent[1]))
            elif completion:
                subs.append((var, _default_val(var)))
        if not subs:
            return z3.simplify(e) if completion else e
        return z3.simplify(z3.substitute(e, *subs))


def _default_val(var):
    if z3.is_bv(var):
        return z3.BitVecVal(0, var.size())
    if z3.is_real(var):
        return z3.RealVal(0)
    if z3.is_int(var):
        return z3.IntVal(0)
    if z3.is_bool(var):
        return z3.BoolVal(False)
    if z3.is_fp(var):
        return z3.FPVal(0.0, var.sort())
    raise Exception('default value for sort ' + str(var.sort()))


_FV = {}


def free_vars(e):
    """tuple of (id, var) of the uninterpreted constants in e (cached per expression)"""
    i = e.get_id()
    r = _FV.get(i)
    if r is not None:
        return r[1]
    out = {}
    seen = set()
    stack = [e]
    while stack:
        x = stack.pop()
        xi = x.get_id()
        if xi in seen:
            continue
        seen.add(xi)
        if z3.is_const(x):
            if x.decl().kind() == z3.Z3_OP_UNINTERPRETED:
                out[xi] = x
            continue
        if z3.is_app(x):
            stack.extend(x.children())
    res = tuple(out.items())
    if len(_FV) > 200000:
        _FV.clear()
    _FV[i] = (e, res)
    return res


_NL = {}


def is_nonlinear(e):
    """does e contain a product/quotient/power of non-constant arithmetic terms? (cached)"""
    i = e.get_id()
    r = _NL.get(i)
    if r is not None:
        return r[1]
    res = False
    seen = set()
    stack = [e]
    while stack:
        x = stack.pop()
        xi = x.get_id()
        if xi in seen:
            continue
        seen.add(xi)
        if not z3.is_app(x):
            continue
        k = x.decl().kind()
        if k == z3.Z3_OP_MUL:
            if sum(1 for c in x.children() if not (z3.is_rational_value(c) or z3.is_int_value(c) or z3.is_algebraic_value(c))) >= 2 and (z3.is_real(x) or z3.is_int(x)):
                res = True
                break
        elif k in (z3.Z3_OP_DIV, z3.Z3_OP_IDIV, z3.Z3_OP_MOD, z3.Z3_OP_REM):
            if not (z3.is_rational_value(x.arg(1)) or z3.is_int_value(x.arg(1))):
                res = True
                break
        elif k == z3.Z3_OP_POWER:
            res = True
            break
        stack.extend(x.children())
    if len(_NL) > 200000:
        _NL.clear()
    _NL[i] = (e, res)
    return res


_LE_KINDS = (z3.Z3_OP_LE, z3.Z3_OP_SLEQ, z3.Z3_OP_ULEQ)


def _atom(c):
    """strip negations: returns (atom, polarity)"""
    pol = True
    while z3.is_not(c):
        c = c.arg(0)
        pol = not pol
    return c, pol


def _mk_le(kind, a, b):
    if kind == z3.Z3_OP_LE:
        return a <= b
    if kind == z3.Z3_OP_SLEQ:
        return a <= b
    return z3.ULE(a, b)


def _kget(kn, a):
    v = kn.get(a.get_id())
    return None if v is None else v[0]


def known_lookup(st, cond):
    a, pol = _atom(cond)
    v = st.known.get(a.get_id())
    if v is None:
        return None
    return v[0] == pol


def known_learn(st, cond):
    """record a decided atom and the order facts it implies (total orders: reals, signed and unsigned bit-vectors)"""
    a, pol = _atom(cond)
    kn = st.known
    kn[a.get_id()] = (pol, a)
    try:
        k = a.decl().kind()
    except Exception:
        return
    if k in _LE_KINDS and a.num_args() == 2:
        x, y = a.arg(0), a.arg(1)
        rev = z3.simplify(_mk_le(k, y, x))
        eq = z3.simplify(x == y)
        ra, rp = _atom(rev)
        ea, ep = _atom(eq)
        if not pol:
            # x > y: y <= x holds, x == y does not
            if not z3.is_true(ra) and not z3.is_false(ra):
                kn[ra.get_id()] = (rp, ra)
            if not z3.is_true(ea) and not z3.is_false(ea):
                kn[ea.get_id()] = (not ep, ea)
        else:
            rv = _kget(kn, ra)
            ev = _kget(kn, ea)
            if rv is not None and (rv == rp) and not z3.is_true(ea) and not z3.is_false(ea):
                kn[ea.get_id()] = (ep, ea)           # x<=y and y<=x: equal
            elif ev is not None and (ev != ep) and not z3.is_true(ra) and not z3.is_false(ra):
                kn[ra.get_id()] = (not rp, ra)       # x<=y and x!=y: not y<=x
    elif k == z3.Z3_OP_EQ and a.num_args() == 2:
        x, y = a.arg(0), a.arg(1)
        if z3.is_bv(x) or z3.is_real(x) or z3.is_int(x):
            kinds = (z3.Z3_OP_SLEQ, z3.Z3_OP_ULEQ) if z3.is_bv(x) else (z3.Z3_OP_LE,)
            for kk in kinds:
                for (p_, q_) in ((x, y), (y, x)):
                    le = z3.simplify(_mk_le(kk, p_, q_))
                    la, lp = _atom(le)
                    if z3.is_true(la) or z3.is_false(la):
                        continue
                    if pol:
                        kn[la.get_id()] = (lp, la)
                    else:
                        # x != y: if p<=q is known true then q<=p is false
                        lv = _kget(kn, la)
                        if lv is not None and lv == lp:
                            other = z3.simplify(_mk_le(kk, q_, p_))
                            oa, op_ = _atom(other)
                            if not z3.is_true(oa) and not z3.is_false(oa):
                                kn[oa.get_id()] = (not op_, oa)


import symthreads
_ThreadSwitched = symthreads._Switched


class Engine:
    def __init__(s, M, opts=None):
        s.M = M
        o = dict(pagesize=4096, max_instr=3_000_000, max_paths=200000, time_limit=1e9, query_timeout_ms=20000,
                 enum_limit=64, ncores=1, solver_mode='assume', stubs={}, fp='real', verbose=0, stop_on_first=False, max_viol=200)
        if opts:
            o.update(opts)
        s.o = o
        s.solver = z3.Solver()
        if o['query_timeout_ms']:
            s.solver.set('timeout', o['query_timeout_ms'])
        s.sstack = []
        s.lits = {}
        s.litkeep = []
        s.nq = 0
        s.qt = 0.0
        s.ninstr = 0
        s.nforks = 0
        s.paths = []         # completed path summaries
        s.viol = []
        s.inconcl = []
        s.work = []
        s.fnidx = {}
        s.fnbyaddr = {}
        s.covers = {}
        s.t0 = time.time()
        s.stubs = dict(BUILTINS)
        s.stubs.update(o['stubs'])
        s.strcache = {}
        s.symcount = 0
        s.aborted = None
        s.nbranch = 0
        s.npruned = 0
        s.nknown = 0
        s.nnl = 0
        s.nprobe = 0
        s.nskipped = 0
        s.nunsure = 0
        s.links = {}
        s.nlink2 = 0
        s.nlinkfb = 0

    # ------------------------------------------------------------------ solver
    def _sync(s, pc):
        ss = s.sstack
        n = min(len(ss), len(pc))
        i = 0
        while i < n and ss[i] is pc[i]:
            i += 1
        for _ in range(len(ss) - i):
            s.solver.pop()
        del ss[i:]
        for c in pc[i:]:
            s.solver.push()
            s.solver.add(c)
            ss.append(c)

    def _lit(s, c):
        i = c.get_id()
        b = s.lits.get(i)
        if b is None:
            b = z3.Bool('L!%d' % i)
            s.solver.add(z3.Implies(b, c))
            s.lits[i] = b
            s.litkeep.append(c)
        return b

    def _slice(s, st, seed_exprs):
        """constraints of the path condition that share variables (transitively) with the seeds"""
        rel = set()
        for e in seed_exprs:
            for vid, _ in free_vars(e):
                rel.add(vid)
        pcs = [(c, [vid for vid, _ in free_vars(c)]) for c in st.pc]
        chosen = []
        changed = True
        while changed and pcs:
            changed = False
            rest = []
            for c, ids in pcs:
                hit = False
                for v in ids:
                    if v in rel:
                        hit = True
                        break
                if hit:
                    chosen.append(c)
                    rel.update(ids)
                    changed = True
                else:
                    rest.append((c, ids))
            pcs = rest
        return chosen, rel

    def query(s, st, extra, full=False, seeds=()):
        """sat/unsat/unknown of pc + extra; returns (result string, merged partial model or None)"""
        s.nq += 1
        t = time.time()
        extras = list(extra) if isinstance(extra, (list, tuple)) else [extra]
        if full:
            cons, rel = list(st.pc), None
        else:
            cons, rel = s._slice(st, extras + list(seeds))
        if len(s.lits) > 3000:
            s.solver = z3.Solver()
            if s.o['query_timeout_ms']:
                s.solver.set('timeout', s.o['query_timeout_ms'])
            s.lits = {}
            s.litkeep = []
        if s.links and any(c.get_id() in s.links for c in cons):
            r, m2 = s._query_linked(cons, extras)
            if r is not None:
                s.nnl += 1
                s.qt += time.time() - t
                if r == 'sat':
                    vals = dict(st.model.vals) if st.model is not None else {}
                    vals.update(m2)
                    return 'sat', PModel(vals)
                return r, None
        if any(is_nonlinear(c) for c in extras) or any(is_nonlinear(c) for c in cons):
            # nonlinear real arithmetic: a dedicated solver, so that these constraints never linger in the shared one
            nls = z3.Solver()
            if s.o['query_timeout_ms']:
                nls.set('timeout', s.o['query_timeout_ms'])
            nls.add(*cons)
            nls.add(*extras)
            r = nls.check()
            s.nnl += 1
            solver_used = nls
        else:
            a = [s._lit(c) for c in cons] + [s._lit(c) for c in extras]
            r = s.solver.check(*a)
            solver_used = s.solver
        m = None
        if r == z3.sat:
            zm = solver_used.model()
            vals = dict(st.model.vals) if st.model is not None else {}
            allv = {}
            for c in cons + extras + list(seeds):
                for vid, var in free_vars(c):
                    allv[vid] = var
            for vid, var in allv.items():
                vals[vid] = (var, zm.eval(var, True))
            m = PModel(vals)
        s.qt += time.time() - t
        if r == z3.sat:
            return 'sat', m
        if r == z3.unsat:
            return 'unsat', None
        return 'unknown', None

    def _int_of_bv(s, st, v, signed):
        """the integer value of bit-vector v as an Int term: concrete parts of a concatenation become numbers, every
        symbolic part an Int variable of its own, tied to its bits by a link constraint that nonlinear queries solve
        in two phases (arithmetic first, then the bits): see _query_linked()"""
        if z3.is_bv_value(v):
            return z3.IntVal(v.as_signed_long() if signed else v.as_long())
        if z3.is_const(v) and v.get_id() in (st.extra.get('lo_fixed') or {}):
            return z3.IntVal(st.extra['lo_fixed'][v.get_id()])          # a layer index already fixed on this path (8 bits, unsigned)
        if z3.is_app_of(v, z3.Z3_OP_CONCAT):
            parts = v.children()
            total = None
            off = v.size()
            for i, p in enumerate(parts):
                off -= p.size()
                t = s._int_of_bv(st, p, signed and i == 0)
                t = t * z3.IntVal(1 << off) if off else t
                total = t if total is None else total + t
            return z3.simplify(total)
        w = v.size()
        k = z3.Int('i2f!%d' % len(s.links))
        link = (k == z3.BV2Int(v, signed))
        s.links[link.get_id()] = (k, v, signed, link, (-(1 << (w - 1)), (1 << (w - 1)) - 1) if signed else (0, (1 << w) - 1))
        st.pc.append(link)
        if st.model is not None:
            bvv = st.model.eval(v, True)
            if z3.is_bv_value(bvv):
                vals = dict(st.model.vals)
                vals[k.get_id()] = (k, z3.IntVal(bvv.as_signed_long() if signed else bvv.as_long()))
                st.model = PModel(vals)
            else:
                st.model = None
        return k

    def _query_linked(s, cons, extras):
        """two-phase decision of a nonlinear query whose integer-to-double conversions are link constraints:
        (1) the arithmetic part with the linked Int variables only range-bounded (a relaxation: unsat is final),
        (2) the bit-vector part with the linked bit-vectors fixed to the values of phase 1.
        returns (None, None) when the split does not apply or phase 2 fails (the caller then asks the full query)"""
        arith, bits, links = [], [], []
        for c in list(cons) + list(extras):
            ent = s.links.get(c.get_id())
            if ent is not None:
                links.append(ent)
                continue
            hasbv = hasar = False
            for vid, var in free_vars(c):
                if z3.is_bv(var):
                    hasbv = True
                else:
                    hasar = True
            if hasbv and hasar:
                return None, None
            (bits if hasbv else arith).append(c)
        if not links:
            return None, None
        nls = z3.Solver()
        if s.o['query_timeout_ms']:
            nls.set('timeout', s.o['query_timeout_ms'])
        nls.add(*arith)
        for k, v, signed, link, (lo, hi) in links:
            nls.add(k >= lo, k <= hi)
        r = nls.check()
        if r == z3.unsat:
            return 'unsat', None
        if r != z3.sat:
            return None, None
        zm = nls.model()
        fix = []
        vals = {}
        for c in arith:
            for vid, var in free_vars(c):
                vals[vid] = (var, zm.eval(var, True))
        for k, v, signed, link, rng in links:
            kv = zm.eval(k, True)
            vals[k.get_id()] = (k, kv)
            fix.append(v == z3.BitVecVal(kv.as_long(), v.size()))
        s.nlink2 += 1
        bs = z3.Solver()
        if s.o['query_timeout_ms']:
            bs.set('timeout', s.o['query_timeout_ms'])
        bs.add(*bits)
        bs.add(*fix)
        if bs.check() != z3.sat:
            s.nlinkfb += 1
            return None, None
        bm = bs.model()
        for c in bits + fix:
            for vid, var in free_vars(c):
                vals[vid] = (var, bm.eval(var, True))
        return 'sat', vals

    def fullmodel(s, st, extra=None, hint=None):
        """a partial model that is checked to satisfy the whole path condition (+ extra)"""
        pm = hint if hint is not None else st.model
        cons = list(st.pc) + ([extra] if extra is not None else [])
        if pm is not None:
            ok = True
            for c in cons:
                if not z3.is_true(pm.eval(c, True)):
                    ok = False
                    break
            if ok:
                return pm
        r, m = s.query(st, [extra] if extra is not None else [z3.BoolVal(True)], full=True)
        if r != 'sat':
            raise Inconclusive('path condition not satisfiable/unknown when a full model was needed')
        return m

    def model_of(s, st):
        st.model = s.fullmodel(st)
        return st.model

    def may(s, st, cond):
        """can cond be true on this path? returns (bool, model)"""
        if cond is True:
            return True, st.model
        if cond is False:
            return False, None
        cond = z3.simplify(cond)
        if z3.is_true(cond):
            return True, st.model
        if z3.is_false(cond):
            return False, None
        kv = known_lookup(st, cond)
        if kv is False:
            s.nknown += 1
            return False, None
        if st.model is not None:
            if z3.is_true(st.model.eval(cond)):
                return True, st.model
        r, m = s.query(st, cond)
        if r == 'unknown':
            pm = s.probe(st, cond)
            if pm is not None:
                return True, pm
            raise Inconclusive('solver returned unknown on ' + str(cond)[:300].replace(chr(10), ' '))
        return r == 'sat', m

    def may_unsure(s, st, cond):
        """like may(), but under option unknown_both an undecided query counts as 'possible' (path marked unsure)"""
        try:
            return s.may(st, cond)
        except Inconclusive:
            if not s.o.get('unknown_both'):
                raise
            st.extra['unsure'] = True
            return True, None

    def probe(s, st, cond, tries=24):
        """the solver gave up: look for a satisfying assignment of pc + cond among a few random values (can only answer 'sat')"""
        import random
        cons, rel = s._slice(st, [cond])
        allv = {}
        for c in cons + [cond]:
            for vid, var in free_vars(c):
                allv[vid] = var
        rnd = random.Random(len(cons) * 7919 + len(allv))
        for k in range(tries):
            vals = dict(st.model.vals) if st.model is not None else {}
            for vid, var in allv.items():
                if z3.is_bv(var):
                    w = var.size()
                    choice = rnd.choice([0, 1, (1 << w) - 1, 1 << (w - 1), rnd.getrandbits(w), rnd.getrandbits(w), rnd.getrandbits(min(w, 8))])
                    vals[vid] = (var, z3.BitVecVal(choice, w))
                elif z3.is_real(var):
                    vals[vid] = (var, z3.RealVal(rnd.choice([0, 1, -1, rnd.randint(-100, 100), rnd.randint(-1000, 1000)])))
                else:
                    break
            else:
                pm = PModel(vals)
                ok = True
                for c in cons + [cond]:
                    if not z3.is_true(pm.eval(c, True)):
                        ok = False
                        break
                if ok:
                    s.nprobe += 1
                    return pm
        return None

    def assume(s, st, cond, model=None):
        if cond is True:
            return
        st.pc.append(cond)
        known_learn(st, cond)
        if model is not None:
            st.model = model
        elif st.model is not None and not z3.is_true(st.model.eval(cond)):
            # the cached values of every variable connected to cond are no longer known to be consistent
            _, rel = s._slice(st, [cond])
            vals = {k: v for k, v in st.model.vals.items() if k not in rel}
            st.model = PModel(vals)

    def enumerate(s, st, e, limit):
        vals = []
        cons = []
        while True:
            r, m = s.query(st, cons if cons else [z3.BoolVal(True)], seeds=[e])
            if r == 'unknown':
                raise Inconclusive('solver unknown during enumeration')
            if r == 'unsat':
                return vals
            v = m.eval(e, True)
            vals.append(v.as_long())
            if len(vals) > limit:
                raise Inconclusive('more than %d feasible values for a symbolic address/size' % limit)
            cons.append(e != v)

    def concretize(s, st, e, what):
        """unique concrete value of bit-vector e, forking over the feasible values"""
        e = z3.simplify(e)
        if z3.is_bv_value(e):
            return e.as_long()
        lb = s.o.get('draw_low_bytes')
        if lb:
            fv = free_vars(e)
            if len(fv) == 1 and fv[0][1].decl().name().startswith('drawlo!'):
                vid, var = fv[0]
                fixed = st.extra.get('lo_fixed') or {}
                if vid in fixed:
                    return z3.simplify(z3.substitute(e, (var, z3.BitVecVal(fixed[vid], 8)))).as_long()
                alts = []
                for b in lb:
                    ok, _ = s.may(st, var == z3.BitVecVal(b, 8))
                    if ok:
                        alts.append(b)
                if not alts:
                    raise PathEnd()
                for b in alts[1:]:
                    st2 = st.fork()
                    st2.stack[-1].ip -= 1
                    s.assume(st2, var == z3.BitVecVal(b, 8))
                    st2.model = None
                    st2.extra['lo_fixed'] = {**fixed, vid: b}
                    s.work.append(st2)
                    s.nforks += 1
                s.assume(st, var == z3.BitVecVal(alts[0], 8))
                st.model = None
                st.extra['lo_fixed'] = {**fixed, vid: alts[0]}
                return z3.simplify(z3.substitute(e, (var, z3.BitVecVal(alts[0], 8)))).as_long()
        vals = s.enumerate(st, e, s.o['enum_limit'])
        if not vals:
            raise PathEnd()
        if len(vals) == 1:
            return vals[0]
        raise ForkRequest([e == v for v in vals])

    # ------------------------------------------------------------------ globals
    def fn(s, name):
        f = s.fnidx.get(name)
        if f is None:
            f = Fn(name, len(s.fnidx))
            s.fnidx[name] = f
            s.fnbyaddr[f.addr()] = f
        return f

    def glob_ptr(s, st, name):
        g = s.M.globals.get(name)
        if g is None:
            if name in s.M.funcs or name in s.M.decls:
                return s.fn(name)
            raise Exception('unknown global ' + name)
        if g['tls'] and st.threads is not None and st.cur_thread != 0:
            key = (st.cur_thread, name)
            p = st.tls.get(key)
            if p is None:
                p = s._instantiate(st, name, g)
                st.tls[key] = p
            return p
        p = st.globs.get(name)
        if p is None:
            p = s._instantiate(st, name, g)
        return p

    def _instantiate(s, st, name, g):
        size = s.M.sizeof(g['ty'])
        p = st.mem.new(max(size, 1), name, 'const' if g['const'] else 'global')
        if not (g['tls'] and st.threads is not None and st.cur_thread != 0):
            st.globs[name] = p
        a = st.mem.allocs[p.a]
        kind = a.kind
        a.kind = 'global'
        a.fill = 0
        if g['external']:
            if name in s.o.get('extern_init', {}):
                s.o['extern_init'][name](s, st, p)
            elif name in ('@stdout', '@stderr', '@stdin'):
                f = st.mem.new(16, 'FILE' + name, 'global')     # an opaque, non-NULL stream object
                st.mem.allocs[f.a].fill = 0
                st.mem.allocs[p.a].cells[0] = (8, f)
        elif g['init'] is not None:
            s.init_const(st, p, g['ty'], g['init'])
        st.mem.allocs[p.a].kind = kind
        return p

    def init_const(s, st, p, ty, v):
        M = s.M
        k = v[0]
        if k == 'zero' or k == 'undef':
            return
        rty = M.resolve(ty)
        if k == 'agg':
            if rty[0] == 'struct':
                offs = M.layout(rty)[0]
                for (ety, ev), off in zip(v[1], offs):
                    s.init_const(st, Ptr(p.a, p.o + off), ety, ev)
            else:
                esz = M.sizeof(rty[2])
                for i, (ety, ev) in enumerate(v[1]):
                    s.init_const(st, Ptr(p.a, p.o + i * esz), ety, ev)
            return
        if k == 'str':
            a = st.mem.allocs[p.a]
            for i, b in enumerate(v[1]):
                if b:
                    a.cells[p.o + i] = (1, b)
            return
        val = s.ev(st, None, v, rty)
        if isinstance(val, int) and val == 0:
            return
        st.mem.allocs[p.a].cells[p.o] = (M.sizeof(rty), val)

    # ------------------------------------------------------------------ operand evaluation
    def ev(s, st, regs, v, ty=None):
        k = v[0]
        if k == 'reg':
            return regs[v[1]]
        if k == 'int':
            if ty is not None and ty[0] == 'i':
                return v[1] & ((1 << ty[1]) - 1)
            return v[1]
        if k == 'flt':
            return v[1]
        if k == 'null':
            return 0
        if k == 'glob':
            return s.glob_ptr(st, v[1])
        if k == 'zero':
            return 0.0 if ty is not None and ty[0] == 'f' else 0
        if k == 'undef':
            return UNDEF
        if k == 'cgep':
            base = s.ev(st, regs, v[2])
            return s.gep(st, regs, v[1], base, v[3])
        if k == 'ccast':
            x = s.ev(st, regs, v[2], v[3])
            return s.cast(st, v[1], v[3], x, v[4])
        if k == 'cbin':
            a = s.ev(st, regs, v[2], v[4])
            b = s.ev(st, regs, v[3], v[4])
            return s.arith(st, v[1], v[4][1], a, b, ())
        raise Exception('ev ' + str(v))

    def gep(s, st, regs, bty, base, idx):
        M = s.M
        off = 0
        ty = bty
        first = True
        for ity, iv in idx:
            i = s.ev(st, regs, iv, ity)
            if not isinstance(i, int):
                if i is UNDEF:
                    raise Violation('uninit', 'uninitialised value used as array index')
                i = s.concretize(st, bvw(i, ity[1]), 'index')
            if i >> (ity[1] - 1):
                i -= 1 << ity[1]
            if first:
                off += i * M.sizeof(ty)
                first = False
                continue
            ty = M.resolve(ty)
            if ty[0] == 'struct':
                off += M.layout(ty)[0][i]
                ty = ty[1][i]
            elif ty[0] == 'arr':
                ty = ty[2]
                off += i * M.sizeof(ty)
            else:
                raise Exception('gep into ' + str(ty))
        if isinstance(base, Ptr):
            return Ptr(base.a, base.o + off)
        if isinstance(base, int):
            r = (base + off) & M64
            return r
        if base is UNDEF:
            raise Violation('uninit', 'address computed from uninitialised pointer')
        if isinstance(base, Fn):
            raise Violation('memory', 'pointer arithmetic on function pointer')
        if isinstance(base, Cont):
            raise Violation('memory', 'pointer arithmetic on saved stack pointer')
        return base + off  # symbolic pointer-sized integer

    # ------------------------------------------------------------------ typed memory access
    def load(s, st, p, ty):
        M = s.M
        rty = M.resolve(ty)
        n = M.sizeof(rty)
        if is_sym(p):
            p = s.sym_ptr(st, p)
        if n > 1 and isinstance(p, Ptr) and p.o % (n if n <= 8 else 8) and rty[0] != 'struct':
            raise Violation('ub', 'misaligned load of %d bytes at offset %d of %s' % (n, p.o, st.mem.allocs[p.a].tag if p.a in st.mem.allocs else p))
        v, exact = st.mem.load_raw(p, n)
        k = rty[0]
        if v is UNDEF:
            return UNDEF
        if k == 'i':
            w = rty[1]
            if isinstance(v, int):
                return v & ((1 << w) - 1)
            if isinstance(v, float):
                return f2bits(v)
            if isinstance(v, (Ptr, Fn, Cont)):
                return v
            if z3.is_bv(v):
                if v.size() != w:
                    v = z3.Extract(w - 1, 0, v)
                return v
            if z3.is_bool(v):
                return v if w == 1 else bvw(v, w)
            raise Inconclusive('integer load of a symbolic real')
        if k == 'f':
            if isinstance(v, float) or z3.is_real(v) or z3.is_fp(v):
                return v
            if isinstance(v, int):
                return bits2f(v) if n == 8 else __import__('struct').unpack('<f', __import__('struct').pack('<I', v))[0]
            raise Inconclusive('floating-point load of symbolic bits')
        if k == 'ptr':
            if isinstance(v, int):
                if v == 0:
                    return 0
                q = st.mem.lookup_addr(v)
                if q is not None:
                    return q
                f = s.fnbyaddr.get(v)
                return f if f is not None else v
            if isinstance(v, float):
                return f2bits(v)
            return v
        raise Exception('load of aggregate type ' + str(ty))

    def store(s, st, p, ty, v):
        n = s.M.sizeof(ty)
        if is_sym(p):
            p = s.sym_ptr(st, p)
        if n > 1 and isinstance(p, Ptr) and p.o % (n if n <= 8 else 8):
            raise Violation('ub', 'misaligned store of %d bytes at offset %d of %s' % (n, p.o, st.mem.allocs[p.a].tag if p.a in st.mem.allocs else p))
        if is_sym(v) and z3.is_bool(v):
            v = bvw(v, 8 * n)
        st.mem.store(p, n, v)

    def sym_ptr(s, st, p):
        a = s.concretize(st, bvw(p, 64), 'address')
        q = st.mem.lookup_addr(a)
        return q if q is not None else a

    # ------------------------------------------------------------------ arithmetic
    def icmp(s, st, pred, ty, a, b):
        if a is UNDEF or b is UNDEF:
            raise Violation('uninit', 'comparison of uninitialised value')
        pa = isinstance(a, (Ptr, Fn, Cont))
        pb = isinstance(b, (Ptr, Fn, Cont))
        if pa or pb:
            if isinstance(a, Cont) or isinstance(b, Cont):
                if pred in ('eq', 'ne'):
                    eq = isinstance(a, Cont) and isinstance(b, Cont) and a.cid == b.cid
                    return int(eq if pred == 'eq' else not eq)
                raise Inconclusive('ordering comparison on saved stack pointer')
            if pa and pb and pred in ('eq', 'ne'):
                eq = (a == b) if type(a) is type(b) else False
                if isinstance(a, Fn) and isinstance(b, Fn):
                    eq = a.name == b.name
                return int(eq if pred == 'eq' else not eq)
            if pa:
                a = a.addr()
            if pb:
                b = b.addr()
        w = ty[1] if ty[0] == 'i' else 64
        if isinstance(a, int) and isinstance(b, int):
            if pred == 'eq':
                return int(a == b)
            if pred == 'ne':
                return int(a != b)
            if pred[0] == 'u':
                return int({'ugt': a > b, 'uge': a >= b, 'ult': a < b, 'ule': a <= b}[pred])
            sa = sgn(a, w)
            sb = sgn(b, w)
            return int({'sgt': sa > sb, 'sge': sa >= sb, 'slt': sa < sb, 'sle': sa <= sb}[pred])
        if w == 1 and (z3.is_bool(a) or z3.is_bool(b)):
            a = a if z3.is_bool(a) else z3.BoolVal(bool(a))
            b = b if z3.is_bool(b) else z3.BoolVal(bool(b))
            if pred == 'eq':
                return a == b
            if pred == 'ne':
                return z3.Xor(a, b)
            raise Exception('i1 ordering compare')
        a = bvw(a, w)
        b = bvw(b, w)
        r = {'eq': lambda: a == b, 'ne': lambda: a != b, 'ugt': lambda: z3.UGT(a, b), 'uge': lambda: z3.UGE(a, b),
             'ult': lambda: z3.ULT(a, b), 'ule': lambda: z3.ULE(a, b), 'sgt': lambda: a > b, 'sge': lambda: a >= b,
             'slt': lambda: a < b, 'sle': lambda: a <= b}[pred]()
        return r

    def fcmp(s, st, pred, a, b):
        if a is UNDEF or b is UNDEF:
            raise Violation('uninit', 'comparison of uninitialised value')
        if isinstance(a, float) and isinstance(b, float):
            un = (a != a) or (b != b)
            if pred == 'uno':
                return int(un)
            if pred == 'ord':
                return int(not un)
            base = {'eq': a == b, 'ne': a != b, 'gt': a > b, 'ge': a >= b, 'lt': a < b, 'le': a <= b}[pred[1:]]
            if pred[0] == 'o':
                return int(base and not un)
            return int(base or un)
        if z3.is_fp(a) or z3.is_fp(b):
            return s.fcmp_fp(pred, a, b)
        for x, other_first in ((a, False), (b, True)):
            if isinstance(x, float) and (x != x or x in (float('inf'), float('-inf'))):
                # an infinity / NaN produced earlier on this path against a (finite) real
                if x != x:
                    return int(pred == 'uno' or (pred[0] == 'u' and pred not in ('uno',)))
                if pred in ('uno', 'ord'):
                    return int(pred == 'ord')
                big = (x > 0)                      # is x the larger side?
                if other_first:                    # comparing (finite) ? x
                    res = {'eq': False, 'ne': True, 'gt': not big, 'ge': not big, 'lt': big, 'le': big}[pred[1:]]
                else:                              # comparing x ? (finite)
                    res = {'eq': False, 'ne': True, 'gt': big, 'ge': big, 'lt': not big, 'le': not big}[pred[1:]]
                return int(res)
        a = realv(a)
        b = realv(b)
        if pred == 'uno':
            return 0
        if pred == 'ord':
            return 1
        return {'eq': lambda: a == b, 'ne': lambda: a != b, 'gt': lambda: a > b, 'ge': lambda: a >= b,
                'lt': lambda: a < b, 'le': lambda: a <= b}[pred[1:]]()

    def fcmp_fp(s, pred, a, b):
        F = z3.Float64()
        a = z3.FPVal(a, F) if isinstance(a, float) else a
        b = z3.FPVal(b, F) if isinstance(b, float) else b
        un = z3.Or(z3.fpIsNaN(a), z3.fpIsNaN(b))
        if pred == 'uno':
            return un
        if pred == 'ord':
            return z3.Not(un)
        base = {'eq': z3.fpEQ, 'ne': lambda x, y: z3.Not(z3.fpEQ(x, y)), 'gt': z3.fpGT, 'ge': z3.fpGEQ,
                'lt': z3.fpLT, 'le': z3.fpLEQ}[pred[1:]](a, b)
        if pred[0] == 'o':
            return z3.And(base, z3.Not(un)) if pred[1:] == 'ne' else base
        return z3.Or(base, un)

    def arith(s, st, op, w, a, b, flags):
        if a is UNDEF or b is UNDEF:
            raise Violation('uninit', 'arithmetic on uninitialised value')
        if isinstance(a, Ptr):
            if isinstance(b, int) and op in ('add', 'sub'):
                d = sgn(b, w)
                return Ptr(a.a, a.o + (d if op == 'add' else -d))
            if isinstance(b, Ptr) and op == 'sub' and a.a == b.a:
                return (a.o - b.o) & ((1 << w) - 1)
            a = a.addr()
        elif isinstance(a, Fn):
            a = a.addr()
        if isinstance(b, Ptr):
            if isinstance(a, int) and op == 'add':
                return Ptr(b.a, b.o + sgn(a, w))
            b = b.addr()
        elif isinstance(b, Fn):
            b = b.addr()
        if isinstance(a, Cont) or isinstance(b, Cont):
            raise Inconclusive('arithmetic on saved stack pointer')
        mask = (1 << w) - 1
        if isinstance(a, int) and isinstance(b, int):
            if op == 'add':
                r = a + b
                if flags:
                    if 'nsw' in flags and not (-(1 << (w - 1)) <= sgn(a, w) + sgn(b, w) < (1 << (w - 1))):
                        raise Violation('ub', 'signed overflow in add')
                    if 'nuw' in flags and r > mask:
                        raise Violation('ub', 'unsigned overflow in add nuw')
                return r & mask
            if op == 'sub':
                if flags:
                    if 'nsw' in flags and not (-(1 << (w - 1)) <= sgn(a, w) - sgn(b, w) < (1 << (w - 1))):
                        raise Violation('ub', 'signed overflow in sub')
                    if 'nuw' in flags and a < b:
                        raise Violation('ub', 'unsigned overflow in sub nuw')
                return (a - b) & mask
            if op == 'mul':
                if flags:
                    if 'nsw' in flags and not (-(1 << (w - 1)) <= sgn(a, w) * sgn(b, w) < (1 << (w - 1))):
                        raise Violation('ub', 'signed overflow in mul')
                    if 'nuw' in flags and a * b > mask:
                        raise Violation('ub', 'unsigned overflow in mul nuw')
                return (a * b) & mask
            if op == 'and':
                return a & b
            if op == 'or':
                return a | b
            if op == 'xor':
                return a ^ b
            if op in ('shl', 'lshr', 'ashr'):
                if b >= w:
                    raise Violation('ub', 'shift by %d >= width %d' % (b, w))
                if op == 'shl':
                    if 'nsw' in flags and sgn((a << b) & mask, w) != sgn(a, w) << b:
                        raise Violation('ub', 'signed overflow in shl')
                    return (a << b) & mask
                if op == 'lshr':
                    return a >> b
                return (sgn(a, w) >> b) & mask
            if op in ('udiv', 'urem', 'sdiv', 'srem'):
                if b == 0:
                    raise Violation('ub', 'integer division by zero')
                if op == 'udiv':
                    return a // b
                if op == 'urem':
                    return a % b
                sa = sgn(a, w)
                sb = sgn(b, w)
                if sa == -(1 << (w - 1)) and sb == -1:
                    raise Violation('ub', 'signed division overflow')
                q = abs(sa) // abs(sb)
                if (sa < 0) != (sb < 0):
                    q = -q
                if op == 'sdiv':
                    return q & mask
                return (sa - q * sb) & mask
            raise Exception('arith ' + op)
        if w == 1 and op in ('and', 'or', 'xor'):
            a = a if z3.is_bool(a) else z3.BoolVal(bool(a))
            b = b if z3.is_bool(b) else z3.BoolVal(bool(b))
            return {'and': z3.And, 'or': z3.Or, 'xor': z3.Xor}[op](a, b)
        a = bvw(a, w)
        b = bvw(b, w)
        if op == 'add':
            if 'nsw' in flags:
                s.ub_if(st, z3.Not(z3.And(z3.BVAddNoOverflow(a, b, True), z3.BVAddNoUnderflow(a, b))), 'signed overflow in add')
            return a + b
        if op == 'sub':
            if 'nsw' in flags:
                s.ub_if(st, z3.Not(z3.And(z3.BVSubNoOverflow(a, b), z3.BVSubNoUnderflow(a, b, True))), 'signed overflow in sub')
            return a - b
        if op == 'mul':
            if 'nsw' in flags:
                s.ub_if(st, z3.Not(z3.And(z3.BVMulNoOverflow(a, b, True), z3.BVMulNoUnderflow(a, b))), 'signed overflow in mul')
            return a * b
        if op == 'and':
            return a & b
        if op == 'or':
            return a | b
        if op == 'xor':
            return a ^ b
        if op in ('shl', 'lshr', 'ashr'):
            s.ub_if(st, z3.UGE(b, w), 'shift amount >= width')
            return a << b if op == 'shl' else z3.LShR(a, b) if op == 'lshr' else a >> b
        if op in ('udiv', 'urem', 'sdiv', 'srem'):
            s.ub_if(st, b == 0, 'integer division by zero')
            if op == 'udiv':
                return z3.UDiv(a, b)
            if op == 'urem':
                return z3.URem(a, b)
            s.ub_if(st, z3.And(a == (1 << (w - 1)), b == mask), 'signed division overflow')
            return a / b if op == 'sdiv' else z3.SRem(a, b)
        raise Exception('arith ' + op)

    def ub_if(s, st, cond, msg):
        ok, m = s.may(st, cond)
        if ok:
            s.report(st, 'ub', msg, cond, m)
            # continue on the defined side if there is one
            okn, mn = s.may(st, z3.Not(cond))
            if not okn:
                raise PathEnd()
            s.assume(st, z3.Not(cond), mn)

    def farith(s, st, op, a, b):
        if a is UNDEF or b is UNDEF:
            raise Violation('uninit', 'arithmetic on uninitialised value')
        if isinstance(a, float) and isinstance(b, float):
            try:
                if op == 'fadd':
                    return a + b
                if op == 'fsub':
                    return a - b
                if op == 'fmul':
                    return a * b
                if op == 'fdiv':
                    if b == 0.0:
                        if s.o.get('fp_traps') and a == a:
                            raise Violation('fp-trap', _TRAPMSG % (('0 / 0', 'invalid-operation') if a == 0.0 else ('division of a non-zero value by zero', 'divide-by-zero')))
                        if a != a or a == 0.0:
                            return float('nan')
                        return math.copysign(float('inf'), a) * math.copysign(1.0, b)
                    return a / b
                if op == 'frem':
                    return math.fmod(a, b)
            except OverflowError:
                return float('inf')
        if isinstance(a, int) or isinstance(b, int):
            raise Exception('integer in float op')
        if z3.is_fp(a) or z3.is_fp(b):
            F = z3.Float64()
            a = z3.FPVal(a, F) if isinstance(a, float) else a
            b = z3.FPVal(b, F) if isinstance(b, float) else b
            rm = z3.RNE()
            return {'fadd': z3.fpAdd, 'fsub': z3.fpSub, 'fmul': z3.fpMul, 'fdiv': z3.fpDiv}[op](rm, a, b)
        if op == 'fdiv' and isinstance(b, float) and b in (float('inf'), float('-inf')):
            return 0.0          # a finite (real) numerator over an infinite divisor
        for x in (a, b):
            if isinstance(x, float) and (x != x or x in (float('inf'), float('-inf'))):
                raise Violation('fp', 'an infinity or NaN produced earlier on this path enters floating-point arithmetic')
        # exact real arithmetic; special-case concrete zeros to keep terms linear
        if op == 'fmul':
            if isinstance(a, float) and a == 0.0 or isinstance(b, float) and b == 0.0:
                return 0.0
            if isinstance(a, float) and a == 1.0:
                return b
            if isinstance(b, float) and b == 1.0:
                return a
        if op == 'fadd':
            if isinstance(a, float) and a == 0.0:
                return b
            if isinstance(b, float) and b == 0.0:
                return a
        if op == 'fsub' and isinstance(b, float) and b == 0.0:
            return a
        if op == 'fdiv' and isinstance(b, float) and b in (float('inf'), float('-inf')):
            return 0.0          # a finite (real) numerator over an infinite divisor
        a = realv(a)
        b = realv(b)
        if op == 'fadd':
            return a + b
        if op == 'fsub':
            return a - b
        if op == 'fmul':
            return a * b
        if op == 'fdiv':
            ok, m = s.may(st, b == 0)
            if ok:
                s.report(st, 'fp', 'real-model division by a divisor that can be zero (inf/NaN in IEEE)', b == 0, m)
                okn, mn = s.may(st, b != 0)
                if not okn:
                    raise PathEnd()
                s.assume(st, b != 0, mn)
            return a / b
        raise Inconclusive('frem on symbolic reals')

    def cast(s, st, op, sty, v, dty):
        if v is UNDEF:
            if op in ('bitcast', 'inttoptr', 'ptrtoint'):
                return UNDEF
            raise Violation('uninit', 'conversion of uninitialised value')
        if op == 'bitcast':
            if sty[0] == 'f' and dty[0] == 'i':
                if isinstance(v, float):
                    return f2bits(v)
                raise Inconclusive('bitcast of symbolic real to integer')
            if sty[0] == 'i' and dty[0] == 'f':
                if isinstance(v, int):
                    return bits2f(v)
                raise Inconclusive('bitcast of symbolic bits to double')
            return v
        if op == 'ptrtoint':
            if isinstance(v, (Ptr, Fn)):
                if dty[1] == 64:
                    return v  # kept lazily; arithmetic converts on demand
                return v.addr() & ((1 << dty[1]) - 1)
            if isinstance(v, int):
                return v & ((1 << dty[1]) - 1)
            if isinstance(v, Cont):
                return v
            return v if dty[1] == 64 else z3.Extract(dty[1] - 1, 0, v)
        if op == 'inttoptr':
            if isinstance(v, int):
                if sty[1] < 64:
                    return v
                if v == 0:
                    return 0
                q = st.mem.lookup_addr(v)
                if q is not None:
                    return q
                f = s.fnbyaddr.get(v)
                return f if f is not None else v
            if is_sym(v) and sty[1] < 64:
                return z3.ZeroExt(64 - sty[1], bvw(v, sty[1]))
            return v
        if op in ('zext', 'sext', 'trunc'):
            sw = sty[1]
            dw = dty[1]
            if isinstance(v, (Ptr, Fn)):
                if op == 'trunc':
                    v = v.addr()
                else:
                    return v
            if isinstance(v, Cont):
                raise Inconclusive('integer conversion of saved stack pointer')
            if isinstance(v, int):
                if op == 'sext' and v >> (sw - 1):
                    v |= ((1 << dw) - 1) ^ ((1 << sw) - 1)
                return v & ((1 << dw) - 1)
            if z3.is_bool(v):
                if op == 'sext':
                    return z3.If(v, z3.BitVecVal((1 << dw) - 1, dw), z3.BitVecVal(0, dw))
                return z3.If(v, z3.BitVecVal(1, dw), z3.BitVecVal(0, dw))
            if op == 'zext':
                return z3.ZeroExt(dw - sw, v)
            if op == 'sext':
                return z3.SignExt(dw - sw, v)
            r = z3.Extract(dw - 1, 0, v)
            if dw == 1:
                return r == 1
            return r
        if op in ('uitofp', 'sitofp'):
            if isinstance(v, (Ptr, Fn)):
                v = v.addr()
            if isinstance(v, int):
                if op == 'sitofp':
                    v = sgn(v, sty[1])
                return float(v)
            v = bvw(v, sty[1])
            if s.o['fp'] == 'fp':
                return z3.fpToFP(z3.RNE(), v, z3.Float64()) if op == 'sitofp' else z3.fpToFPUnsigned(z3.RNE(), v, z3.Float64())
            if s.o.get('int_links'):
                return z3.ToReal(s._int_of_bv(st, z3.simplify(v), op == 'sitofp'))
            return z3.ToReal(z3.BV2Int(v, op == 'sitofp'))
        if op in ('fptoui', 'fptosi'):
            w = dty[1]
            if isinstance(v, float):
                if v != v or v in (float('inf'), float('-inf')):
                    raise Violation('ub', 'conversion of NaN/inf to integer')
                t = int(v)
                lo, hi = (0, (1 << w) - 1) if op == 'fptoui' else (-(1 << (w - 1)), (1 << (w - 1)) - 1)
                if not (lo <= t <= hi):
                    raise Violation('ub', 'floating-point value %r out of range of %s i%d' % (v, op, w))
                return t & ((1 << w) - 1)
            if z3.is_fp(v):
                raise Inconclusive('fp to int on symbolic FP')
            lo, hi = (0, (1 << w)) if op == 'fptoui' else (-(1 << (w - 1)), (1 << (w - 1)))
            s.ub_if(st, z3.Or(v <= lo - 1, v >= hi), 'floating-point value out of range of ' + op)
            fl = z3.ToInt(v)
            tr = z3.If(v >= 0, fl, z3.If(z3.ToReal(fl) == v, fl, fl + 1))
            return z3.Int2BV(tr, w)
        if op in ('fpext', 'fptrunc'):
            if isinstance(v, float):
                if op == 'fptrunc':
                    import struct as _s
                    return _s.unpack('<f', _s.pack('<f', v))[0]
                return v
            raise Inconclusive('float<->double conversion of symbolic value')
        raise Exception('cast ' + op)

    # ------------------------------------------------------------------ reporting
    def report(s, st, kind, msg, cond=None, model=None, label=None):
        """record a violation on this path.  cond = the violating condition (already known satisfiable)."""
        model = s.fullmodel(st, cond, hint=model)
        v = {'kind': kind, 'msg': msg, 'label': label, 'inputs': s.inputs_of(st, model), 'tags': {},
             'notes': s.notes_of(st, model), 'where': s.where(st), 'entry': s.entry}
        for name, tc in st.tags.items():
            if isinstance(tc, bool):
                v['tags'][name] = tc
            else:
                v['tags'][name] = z3.is_true(model.eval(tc, True))
        st.viols.append(v)
        s.viol.append(v)
        if s.o['verbose']:
            print('  VIOL', kind, msg, v['where'], file=sys.stderr)
        if label and label.startswith('WITNESS') and s.o.get('witness_stop'):
            s.aborted = 'witness'
        elif len(s.viol) >= s.o['max_viol']:
            s.aborted = 'violation limit'

    def where(s, st):
        out = []
        for f in st.stack[-6:]:
            if f.f is not None:
                out.append(f.f['name'][1:])
        return '>'.join(out)

    def inputs_of(s, st, model):
        out = []
        for name, var, kind in st.syms:
            val = model.eval(var, True)
            if kind == 'real':
                fr = val.as_fraction() if z3.is_rational_value(val) else None
                if fr is None:
                    try:
                        fr = val.approx(20).as_fraction()
                    except Exception:
                        fr = 0
                out.append([name, 'f', float(fr), str(fr)])
            elif kind == 'fp':
                out.append([name, 'f', float(eval_fp(val)), str(val)])
            else:
                out.append([name, 'i', val.as_long()])
        return out

    def notes_of(s, st, model):
        out = []
        for msg, v in st.notes:
            if is_sym(v):
                v = model.eval(v, True)
                if z3.is_bv_value(v):
                    v = v.as_long()
                elif z3.is_rational_value(v):
                    v = float(v.as_fraction())
                else:
                    v = str(v)
            elif isinstance(v, (Ptr, Fn, Cont)):
                v = repr(v)
            out.append([msg, v])
        return out

    def cstr(s, st, p):
        if not isinstance(p, Ptr):
            return '?'
        a = st.mem.allocs[p.a]
        key = (a.tag, p.o)
        if a.kind == 'const' and key in s.strcache:
            return s.strcache[key]
        out = bytearray()
        o = p.o
        while o < a.size:
            c = a.cells.get(o)
            b = c[1] if c else (a.fill or 0)
            if not isinstance(b, int) or b == 0:
                break
            out.append(b & 0xFF)
            o += 1
        r = out.decode('latin1')
        if a.kind == 'const':
            s.strcache[key] = r
        return r

    # ------------------------------------------------------------------ running
    def run(s, entry, args=()):
        s.entry = entry
        st = State()
        fr = Frame(s.M.funcs[entry], dict(zip(s.M.funcs[entry]['params'], args)))
        st.stack = [fr]
        s.work.append(st)
        while s.work:
            if s.aborted:
                break
            if time.time() - s.t0 > s.o['time_limit']:
                s.aborted = 'time limit'
                break
            if len(s.paths) + len(s.inconcl) >= s.o['max_paths']:
                s.aborted = 'path limit'
                break
            st = s.work.pop()
            s.run_state(st)
        return s

    def finish(s, st, how):
        if s.o.get('on_finish'):
            s.o['on_finish'](s, st, how)
        try:
            m = s.model_of(st)
            rec = {'end': how, 'instr': st.ninstr, 'inputs': s.inputs_of(st, m), 'notes': s.notes_of(st, m),
                   'nviol': len(st.viols), 'covers': sorted(st.covers)}
        except Inconclusive as e:
            if (st.extra.get('unsure') or s.o.get('unknown_both')) and not st.viols:
                s.nunsure += 1       # completed without violation; whether the path is feasible at all stayed undecided
                return
            s.inconcl.append({'why': str(e), 'where': s.where(st)})
            return
        for c in st.covers:
            s.covers[c] = s.covers.get(c, 0) + 1
        s.paths.append(rec)

    def run_state(s, st):
        while True:
            try:
                s.loop(st)
                s.finish(st, 'return')
                return
            except ForkRequest as fq:
                fr = st.stack[-1]
                fr.ip -= 1
                alts = fq.alts
                for c in alts[1:]:
                    st2 = st.fork()
                    s.assume(st2, c)
                    st2.model = None
                    s.work.append(st2)
                    s.nforks += 1
                s.assume(st, alts[0])
                st.model = None
                continue
            except PathEnd as e:
                if e.args and e.args[0] == 'ok':
                    s.finish(st, 'end')
                elif e.args and e.args[0] == 'abort':
                    s.finish(st, 'abort')
                else:
                    s.npruned += 1
                return
            except Violation as e:
                try:
                    s.report(st, e.kind, e.msg)
                except Inconclusive as e2:
                    s.inconcl.append({'why': str(e2), 'where': s.where(st)})
                    return
                s.finish(st, 'violation')
                return
            except Inconclusive as e:
                s.inconcl.append({'why': str(e), 'where': s.where(st), 'instr': st.ninstr})
                if s.o['verbose']:
                    print('  INCONCLUSIVE', e, s.where(st), file=sys.stderr)
                return

    def push_call(s, st, fname, args, dst, ins=None):
        f = s.M.funcs[fname]
        fr = st.stack[-1] if st.stack else None
        if fr is not None:
            fr.dst = dst
        np_ = len(f['params'])
        nf = Frame(f, dict(zip(f['params'], args)))
        if f['vararg']:
            nf.va = list(args[np_:])
        st.stack.append(nf)
        if len(st.stack) > 400:
            raise Inconclusive('call depth > 400')

    def do_ret(s, st, v):
        """pop the top frame, deliver v to the caller; returns False when the stack is empty"""
        fr = st.stack.pop()
        if fr.allocas:
            for aid in fr.allocas:
                st.mem.allocs.pop(aid, None)
        if not st.stack:
            return False
        top = st.stack[-1]
        if top.kind == 0:
            if top.dst:
                top.regs[top.dst] = v
            return True
        if top.kind == 1:
            # the coroutine function returned into the trampoline: jmp r15 with rdi = rax
            exitfn = top.aux
            st.stack.pop()
            dead = Frame(None, {})
            dead.kind = 2
            st.stack.append(dead)
            s.call_value(st, exitfn, [v if v is not None else 0], None)
            return True
        if top.kind == 2:
            raise Violation('control', 'coroutine exit function returned (execution falls off the trampoline)')
        if top.kind == 3:
            s.thread_finished(st, v)
            return True
        raise Exception('frame kind')

    def call_value(s, st, f, args, dst, ins=None):
        if isinstance(f, Fn):
            name = f.name
        elif f is UNDEF:
            raise Violation('uninit', 'call through uninitialised function pointer')
        elif isinstance(f, int):
            raise Violation('memory', 'call through %s function pointer 0x%x' % ('null' if f == 0 else 'invalid', f))
        elif isinstance(f, Ptr):
            raise Violation('memory', 'call through data pointer ' + repr(f))
        else:
            raise Inconclusive('call through symbolic function pointer')
        if name in s.o.get('skip_functions', ()):
            s.nskipped += 1
            raise PathEnd()          # outside the stated bound of this family (listed in its assumptions)
        if name == '@cmb_random_sfc64' and s.o.get('sym_draws'):
            # C16: any 64-bit value can come out of the generator: a fresh symbol per raw draw
            md = s.o.get('max_draws')
            if md is not None:
                n = st.extra.get('ndraws', 0) + 1
                if n > md:
                    s.nskipped += 1
                    raise PathEnd()      # rejection loops are cut after max_draws raw draws (stated bound)
                st.extra['ndraws'] = n
            dl = st.extra.get('drawlog', ())
            di = st.extra.get('drawidx', len(dl))
            if di < len(dl):
                # after sym_draws_rewind(): the generator is in the same state again, so it repeats its outputs
                st.extra['drawidx'] = di + 1
                if dst:
                    st.stack[-1].regs[dst] = dl[di]
                return
            lb = s.o.get('draw_low_bytes')
            if lb:
                # stated bound: only these ziggurat layers (low byte of the raw draw) are explored.  The draw is the
                # concatenation of a symbolic upper part and a symbolic layer index; the index is forked over the
                # configured layers when (and only when) it is used as a table index: see concretize()
                s.symcount += 1
                hi = z3.BitVec('drawhi!%d' % len(st.syms), 56)
                lo = z3.BitVec('drawlo!%d' % len(st.syms), 8)
                r = z3.Concat(hi, lo)
                st.syms.append(('draw', r, 'bv'))
            else:
                r = s.fresh(st, 'draw', 64)
            st.extra['drawlog'] = tuple(dl) + (r,)
            st.extra['drawidx'] = len(dl) + 1
            if dst:
                st.stack[-1].regs[dst] = r
            return
        st_fn = s.stubs.get(name)
        if st_fn is not None:
            r = st_fn(s, st, args, ins)
            if dst and r is not _NORESULT:
                st.stack[-1].regs[dst] = r
            return
        if name in s.M.funcs:
            s.push_call(st, name, args, dst, ins)
            return
        if name.startswith('@llvm.'):
            r = s.intrinsic(st, name, args)
            if dst:
                st.stack[-1].regs[dst] = r
            return
        raise Exception('no model for external function ' + name)

    def loop(s, st):
        M = s.M
        ev = s.ev
        max_instr = s.o['max_instr']
        stack = st.stack
        while stack:
            fr = stack[-1]
            regs = fr.regs
            ins = fr.ins[fr.ip]
            fr.ip += 1
            st.ninstr += 1
            s.ninstr += 1
            op = ins[0]
            if op == 'br':
                c = ev(st, regs, ins[1])
                if isinstance(c, int):
                    tgt = ins[2] if c & 1 else ins[3]
                elif c is UNDEF:
                    raise Violation('uninit', 'branch on uninitialised value')
                else:
                    tgt = s.branch(st, fr, c if z3.is_bool(c) else (c != 0), ins)
                    stack = st.stack
                fr.prev = fr.blk
                fr.blk = tgt
                fr.ins = fr.f['blocks'][tgt]
                fr.ip = 0
                if st.ninstr > max_instr:
                    raise Inconclusive('instruction budget exceeded (%d)' % max_instr)
                continue
            if op == 'jmp':
                fr.prev = fr.blk
                fr.blk = ins[1]
                fr.ins = fr.f['blocks'][ins[1]]
                fr.ip = 0
                continue
            if op == 'getelementptr':
                regs[ins[1]] = s.gep(st, regs, ins[2], ev(st, regs, ins[3]), ins[4])
                continue
            if op == 'load':
                p_ = ev(st, regs, ins[3])
                regs[ins[1]] = s.load(st, p_, ins[2])
                if st.threads is not None and s.is_shared(st, p_):
                    s.sched_point(st, 'load')
                continue
            if op == 'call':
                f = ev(st, regs, ins[3])
                args = [ev(st, regs, a, t) for t, a in ins[4]]
                try:
                    s.call_value(st, f, args, ins[1], ins)
                except _ThreadSwitched:
                    pass
                stack = st.stack
                continue
            if op == 'icmp':
                regs[ins[1]] = s.icmp(st, ins[2], ins[3], ev(st, regs, ins[4], ins[3]), ev(st, regs, ins[5], ins[3]))
                continue
            if op == 'ret':
                v = ev(st, regs, ins[2], ins[1]) if ins[1] else None
                if not s.do_ret(st, v):
                    return v
                stack = st.stack
                continue
            if op == 'bitcast':
                regs[ins[1]] = s.cast(st, op, ins[2], ev(st, regs, ins[3], ins[2]), ins[4])
                continue
            if op == 'store':
                p_ = ev(st, regs, ins[3])
                s.store(st, p_, ins[1], ev(st, regs, ins[2], ins[1]))
                if st.threads is not None and s.is_shared(st, p_):
                    s.sched_point(st, 'store')
                continue
            if op == 'phi':
                blkins = fr.ins
                j = fr.ip - 1
                vals = []
                prev = fr.prev
                while blkins[j][0] == 'phi':
                    pi = blkins[j]
                    for v, b in pi[3]:
                        if b == prev:
                            vals.append((pi[1], ev(st, regs, v, pi[2])))
                            break
                    else:
                        raise Exception('phi without incoming for ' + str(prev))
                    j += 1
                for d, v in vals:
                    regs[d] = v
                fr.ip = j
                continue
            if op in ('add', 'sub', 'mul', 'and', 'or', 'xor', 'shl', 'lshr', 'ashr', 'udiv', 'urem', 'sdiv', 'srem'):
                ty = ins[2]
                regs[ins[1]] = s.arith(st, op, ty[1], ev(st, regs, ins[3], ty), ev(st, regs, ins[4], ty), ins[5])
                continue
            if op in ('zext', 'sext', 'trunc', 'ptrtoint', 'inttoptr', 'uitofp', 'sitofp', 'fptoui', 'fptosi', 'fpext', 'fptrunc'):
                regs[ins[1]] = s.cast(st, op, ins[2], ev(st, regs, ins[3], ins[2]), ins[4])
                continue
            if op in ('fadd', 'fsub', 'fmul', 'fdiv', 'frem'):
                ty = ins[2]
                regs[ins[1]] = s.farith(st, op, ev(st, regs, ins[3], ty), ev(st, regs, ins[4], ty))
                continue
            if op == 'fcmp':
                regs[ins[1]] = s.fcmp(st, ins[2], ev(st, regs, ins[4], ins[3]), ev(st, regs, ins[5], ins[3]))
                continue
            if op == 'select':
                c = ev(st, regs, ins[3])
                a = ev(st, regs, ins[4], ins[2])
                b = ev(st, regs, ins[5], ins[2])
                if isinstance(c, int):
                    regs[ins[1]] = a if c & 1 else b
                elif c is UNDEF:
                    raise Violation('uninit', 'select on uninitialised value')
                else:
                    cb = c if z3.is_bool(c) else (c != 0)
                    ty = ins[2]
                    if ty[0] == 'i' and not isinstance(a, (Ptr, Fn, Cont)) and not isinstance(b, (Ptr, Fn, Cont)) and a is not UNDEF and b is not UNDEF:
                        if ty[1] == 1:
                            a = a if z3.is_bool(a) else z3.BoolVal(bool(a))
                            b = b if z3.is_bool(b) else z3.BoolVal(bool(b))
                            regs[ins[1]] = z3.If(cb, a, b)
                        else:
                            regs[ins[1]] = z3.If(cb, bvw(a, ty[1]), bvw(b, ty[1]))
                    elif ty[0] == 'f' and not (z3.is_fp(a) or z3.is_fp(b)) and a is not UNDEF and b is not UNDEF:
                        regs[ins[1]] = z3.If(cb, realv(a), realv(b))
                    else:
                        t_ok, _ = s.may(st, cb)
                        f_ok, _ = s.may(st, z3.Not(cb))
                        if t_ok and f_ok:
                            raise ForkRequest([cb, z3.Not(cb)])
                        regs[ins[1]] = a if t_ok else b
                continue
            if op == 'alloca':
                n = M.sizeof(ins[2])
                if ins[3] is not None:
                    cnt = ev(st, regs, ins[3][1], ins[3][0])
                    if not isinstance(cnt, int):
                        cnt = s.concretize(st, bvw(cnt, ins[3][0][1]), 'alloca size')
                    n *= cnt
                p = st.mem.new(n, fr.f['name'] + ':' + ins[1], 'stack')
                if fr.allocas is None:
                    fr.allocas = []
                fr.allocas.append(p.a)
                regs[ins[1]] = p
                continue
            if op == 'fneg':
                v = ev(st, regs, ins[3], ins[2])
                if v is UNDEF:
                    raise Violation('uninit', 'arithmetic on uninitialised value')
                regs[ins[1]] = -v if isinstance(v, float) or z3.is_real(v) else z3.fpNeg(v)
                continue
            if op == 'switch':
                v = ev(st, regs, ins[2], ins[1])
                if v is UNDEF:
                    raise Violation('uninit', 'switch on uninitialised value')
                if isinstance(v, int):
                    tgt = ins[3]
                    for cv, lbl in ins[4]:
                        if (cv[1] & ((1 << ins[1][1]) - 1)) == v:
                            tgt = lbl
                            break
                else:
                    w = ins[1][1]
                    alts = []
                    none = []
                    for cv, lbl in ins[4]:
                        c = v == (cv[1] & ((1 << w) - 1))
                        none.append(z3.Not(c))
                        if s.may(st, c)[0]:
                            alts.append(c)
                    dflt = z3.And(*none) if none else z3.BoolVal(True)
                    if s.may(st, dflt)[0]:
                        alts.append(dflt)
                    if not alts:
                        raise PathEnd()
                    if len(alts) > 1:
                        raise ForkRequest(alts)
                    s.assume(st, alts[0])
                    val = s.model_of(st).eval(v, True).as_long()
                    tgt = ins[3]
                    for cv, lbl in ins[4]:
                        if (cv[1] & ((1 << w) - 1)) == val:
                            tgt = lbl
                            break
                fr.prev = fr.blk
                fr.blk = tgt
                fr.ins = fr.f['blocks'][tgt]
                fr.ip = 0
                continue
            if op == 'unreachable':
                raise Violation('control', 'reached unreachable')
            if op == 'atomicrmw':
                p = ev(st, regs, ins[4])
                ty = ins[3]
                old = s.load(st, p, ty)
                val = ev(st, regs, ins[5], ty)
                new = s.arith(st, {'add': 'add', 'sub': 'sub', 'and': 'and', 'or': 'or', 'xor': 'xor'}[ins[2]], ty[1], old, val, ()) if ins[2] != 'xchg' else val
                s.store(st, p, ty, new)
                regs[ins[1]] = old
                s.sched_point(st, 'atomic')
                stack = st.stack
                continue
            raise Exception('exec? ' + str(ins))
        return None

    def branch(s, st, fr, cond, ins):
        """decide a symbolic conditional branch; may fork.  returns the target label for st"""
        s.nbranch += 1
        cond = z3.simplify(cond)
        if z3.is_true(cond):
            return ins[2]
        if z3.is_false(cond):
            return ins[3]
        kv = known_lookup(st, cond)
        if kv is not None:
            s.nknown += 1
            return ins[2] if kv else ins[3]
        t_ok = f_ok = None
        tm = fm = None
        if st.model is not None:
            val = st.model.eval(cond)
            if z3.is_true(val):
                t_ok = True
                tm = st.model
            elif z3.is_false(val):
                f_ok = True
                fm = st.model
        ncond = z3.Not(cond)
        if t_ok is None:
            r, tm = s.query(st, cond)
            if r == 'unknown':
                if not s.o.get('unknown_both'):
                    raise Inconclusive('solver unknown at branch')
                # feasibility undecided: follow the side anyway (sound for the claim: every assertion on it is still
                # decided by the solver, a violation still needs a model); the path is counted as 'unsure'
                r, tm = 'sat', None
                st.extra['unsure'] = True
            t_ok = r == 'sat'
        if f_ok is None:
            r, fm = s.query(st, ncond)
            if r == 'unknown':
                if not s.o.get('unknown_both'):
                    raise Inconclusive('solver unknown at branch')
                r, fm = 'sat', None
                st.extra['unsure'] = True
            f_ok = r == 'sat'
        if t_ok and f_ok:
            st2 = st.fork()
            s.nforks += 1
            fr2 = st2.stack[-1]
            fr2.prev = fr2.blk
            fr2.blk = ins[3]
            fr2.ins = fr2.f['blocks'][ins[3]]
            fr2.ip = 0
            st2.pc.append(ncond)
            known_learn(st2, ncond)
            st2.model = fm
            s.work.append(st2)
            st.pc.append(cond)
            known_learn(st, cond)
            st.model = tm
            return ins[2]
        if t_ok:
            known_learn(st, cond)       # implied by the path condition
            return ins[2]
        if f_ok:
            known_learn(st, ncond)
            return ins[3]
        raise PathEnd()

    def is_shared(s, st, p):
        if not isinstance(p, Ptr):
            return False
        a = st.mem.allocs.get(p.a)
        if a is None or a.kind != 'global':
            return False
        g = s.M.globals.get(a.tag)
        return g is not None and not g['tls']

    def sched_point(s, st, why):
        if st.threads is not None:
            import symthreads
            symthreads.sched_point(s, st, why)

    def thread_finished(s, st, v):
        import symthreads
        symthreads.thread_finished(s, st, v)

    # ------------------------------------------------------------------ llvm intrinsics
    def intrinsic(s, st, name, args):
        if name.startswith('@llvm.memcpy') or name.startswith('@llvm.memmove'):
            n = args[2]
            if not isinstance(n, int):
                n = s.concretize(st, bvw(n, 64), 'memcpy size')
            d, sr = args[0], args[1]
            if is_sym(d):
                d = s.sym_ptr(st, d)
            if is_sym(sr):
                sr = s.sym_ptr(st, sr)
            if n:
                st.mem.memcpy(d, sr, n, overlap_ok=name.startswith('@llvm.memmove'))
            return None
        if name.startswith('@llvm.memset'):
            n = args[2]
            if not isinstance(n, int):
                n = s.concretize(st, bvw(n, 64), 'memset size')
            b = args[1]
            if not isinstance(b, int):
                raise Inconclusive('memset with symbolic byte')
            if n:
                st.mem.memset(args[0], b & 0xFF, n)
            return None
        if name.startswith('@llvm.lifetime') or name in ('@llvm.va_end', '@llvm.donothing') or name.startswith('@llvm.dbg'):
            return None
        if name == '@llvm.assume':
            return None
        if name == '@llvm.fmuladd.f64':
            return s.farith(st, 'fadd', s.farith(st, 'fmul', args[0], args[1]), args[2])
        if name == '@llvm.fabs.f64':
            v = args[0]
            if isinstance(v, float):
                return abs(v)
            return z3.If(v >= 0, v, -v)
        if name in ('@llvm.floor.f64', '@llvm.ceil.f64'):
            v = args[0]
            if isinstance(v, float):
                return float(math.floor(v)) if 'floor' in name else float(math.ceil(v))
            fl = z3.ToReal(z3.ToInt(v))
            if 'floor' in name:
                return fl
            return z3.If(fl == v, fl, fl + 1)
        if name == '@llvm.sqrt.f64':
            return BUILTINS['@sqrt'](s, st, args, None)
        if name == '@llvm.va_start':
            # x86-64 va_list: {gp_offset i32, fp_offset i32, overflow_arg_area, reg_save_area}; we park the
            # list of actual arguments and serve it through vfprintf-style stubs only.
            fr = st.stack[-1]
            st.mem.store(args[0], 4, 0)
            return None
        if name == '@llvm.x86.rdtsc':
            return s.fresh(st, 'rdtsc', 64)
        if name == '@llvm.x86.sse.ldmxcsr' or name == '@llvm.x86.sse.stmxcsr':
            return None
        if name in ('@llvm.trap', '@llvm.debugtrap'):
            raise Violation('abort', 'llvm.trap')
        raise Exception('intrinsic ' + name)

    def fresh(s, st, name, w, kind='bv'):
        s.symcount += 1
        nm = '%s!%d' % (name, len(st.syms))
        if kind == 'real':
            if s.o['fp'] == 'fp':
                v = z3.FP(nm, z3.Float64())
                st.syms.append((name, v, 'fp'))
                return v
            v = z3.Real(nm)
            st.syms.append((name, v, 'real'))
            return v
        v = z3.BitVec(nm, w)
        st.syms.append((name, v, 'bv'))
        return v


def eval_fp(val):
    try:
        return float(val.as_string()) if hasattr(val, 'as_string') else 0.0
    except Exception:
        s_ = str(val)
        if 'oo' in s_:
            return float('-inf') if '-' in s_ else float('inf')
        return float('nan')


# ---------------------------------------------------------------------- builtins / environment stubs
BUILTINS = {}


def builtin(*names):
    def d(f):
        for n in names:
            BUILTINS[n] = f
        return f
    return d


def _size(s, st, n, what):
    if isinstance(n, int):
        return n
    return s.concretize(st, bvw(n, 64), what)


@builtin('@malloc')
def _malloc(s, st, a, ins):
    n = _size(s, st, a[0], 'malloc size')
    if n > (1 << 27):
        raise Violation('memory', 'malloc of %d bytes' % n)
    return st.mem.new(n, 'malloc(%d)@%s' % (n, s.where(st).split('>')[-1]), 'heap')


@builtin('@calloc')
def _calloc(s, st, a, ins):
    n = _size(s, st, a[0], 'calloc n') * _size(s, st, a[1], 'calloc size')
    p = st.mem.new(n, 'calloc(%d)' % n, 'heap')
    st.mem.allocs[p.a].fill = 0
    return p


@builtin('@aligned_alloc')
def _aligned_alloc(s, st, a, ins):
    al = _size(s, st, a[0], 'alignment')
    n = _size(s, st, a[1], 'aligned_alloc size')
    if al == 0 or al & (al - 1) or n % al:
        raise Violation('ub', 'aligned_alloc(%d, %d): size not a multiple of a power-of-two alignment' % (al, n))
    if n > (1 << 27):
        raise Violation('memory', 'aligned_alloc of %d bytes' % n)
    return st.mem.new(n, 'aligned_alloc(%d)@%s' % (n, s.where(st).split('>')[-1]), 'heap')


@builtin('@free')
def _free(s, st, a, ins):
    st.mem.free(a[0])
    return None


@builtin('@realloc')
def _realloc(s, st, a, ins):
    n = _size(s, st, a[1], 'realloc size')
    old = a[0]
    p = st.mem.new(n, 'realloc(%d)' % n, 'heap')
    if isinstance(old, Ptr):
        oa = st.mem.check(old, 0, 'realloc')
        if oa.kind != 'heap' or old.o != 0:
            raise Violation('memory', 'realloc of non-heap pointer')
        k = min(oa.size, n)
        if k:
            st.mem.memcpy(p, old, k)
        st.mem.free(old)   # realloc always moves here, so a caller that ignores the result is caught
    elif old != 0:
        raise Violation('memory', 'realloc of invalid pointer')
    return p


@builtin('@malloc_usable_size')
def _mus(s, st, a, ins):
    return st.mem.check(a[0], 0, 'malloc_usable_size').size


@builtin('@memcpy', '@memmove')
def _memcpy(s, st, a, ins):
    s.intrinsic(st, '@llvm.memcpy' if ins is None or 'memmove' not in str(ins[3]) else '@llvm.memmove', a)
    return a[0]


@builtin('@memset')
def _memset(s, st, a, ins):
    s.intrinsic(st, '@llvm.memset', a)
    return a[0]


@builtin('@sysconf')
def _sysconf(s, st, a, ins):
    return s.o['pagesize']


@builtin('@abort')
def _abort(s, st, a, ins):
    raise Violation('abort', 'abort() called')


@builtin('@cmi_assert_failed')
def _assert_failed(s, st, a, ins):
    # (const char *sourcefile, const char *func, int line, const char *condition)
    try:
        txt = '%s:%s: %s' % (s.cstr(st, a[1]) if len(a) > 1 else '?', a[2] if len(a) > 2 else '?', s.cstr(st, a[3]) if len(a) > 3 else '?')
    except Exception:
        txt = str(a)
    raise Violation('abort', 'library assertion failed: ' + txt)


@builtin('@fputs', '@puts', '@fflush', '@vfprintf', '@vprintf', '@fwrite')
def _stdio(s, st, a, ins):
    return 1


@builtin('@fputc', '@putchar', '@putc')
def _fputc(s, st, a, ins):
    return a[0]          # the character written


@builtin('@fprintf', '@printf')
def _fprintf(s, st, a, ins):
    # output is not produced; floating-point arguments are kept so that a harness can look at printed numbers
    cap = st.extra.get('fp_args')
    if cap is not None and ins is not None:
        vals = [v for (ty, _), v in zip(ins[4], a) if ty[0] == 'f']
        if vals:
            st.extra['fp_args'] = cap + vals
    return 1


@builtin('@sym_capture_reset')
def _capreset(s, st, a, ins):
    st.extra['fp_args'] = []
    return None


@builtin('@sym_capture_count')
def _capcount(s, st, a, ins):
    return len(st.extra.get('fp_args') or [])


@builtin('@sym_capture_f64')
def _capget(s, st, a, ins):
    return (st.extra.get('fp_args') or [])[a[0]]


@builtin('@snprintf')
def _snprintf(s, st, a, ins):
    # only "%s" copies are used by the library (names); copy what fits
    buf, n, fmt = a[0], a[1], a[2]
    f = s.cstr(st, fmt)
    out = f
    if f == '%s' and len(a) > 3:
        out = s.cstr(st, a[3])
    n = _size(s, st, n, 'snprintf size')
    if n > 0:
        data = out.encode('latin1')[:n - 1] + b'\0'
        for i, b in enumerate(data):
            st.mem.store(Ptr(buf.a, buf.o + i), 1, b)
    return len(out)


@builtin('@strlen')
def _strlen(s, st, a, ins):
    return len(s.cstr(st, a[0]))


@builtin('@strncmp')
def _strncmp(s, st, a, ins):
    n = a[2]
    if not isinstance(n, int):
        raise Inconclusive('strncmp with symbolic length')
    x, y = s.cstr(st, a[0])[:n], s.cstr(st, a[1])[:n]
    return 0 if x == y else (1 if x > y else 0xFFFFFFFF)


def _root_of(s, st, v, what):
    """a fresh real r >= 0 with r*r == v (exact algebraic square root in the real-number model)"""
    st.extra['nroots'] = st.extra.get('nroots', 0) + 1
    r = z3.Real('%s!r%d' % (what, st.extra['nroots']))     # internal, not an input
    s.assume(st, z3.And(r >= 0, r * r == v))
    return r


def _is_square_float(x):
    if x < 0 or x != x or x == float('inf'):
        return False
    r = math.sqrt(x)
    from fractions import Fraction
    return Fraction(r) * Fraction(r) == Fraction(x)


@builtin('@sqrt')
def _sqrt(s, st, a, ins):
    v = a[0]
    if isinstance(v, float):
        if v < 0:
            if s.o.get('fp_traps'):
                raise Violation('fp-trap', _TRAPMSG % ('sqrt of a negative value', 'invalid-operation'))
            return float('nan')
        if s.o['fp'] != 'real' or not s.o.get('exact_roots') or _is_square_float(v):
            return math.sqrt(v)
        return _root_of(s, st, f2real(v), 'sqrt')
    ok, m = s.may(st, v < 0)
    if ok:
        s.report(st, 'fp', 'sqrt of a value that can be negative (NaN)', v < 0, m)
        okn, mn = s.may(st, v >= 0)
        if not okn:
            raise PathEnd()
        s.assume(st, v >= 0, mn)
    return _root_of(s, st, v, 'sqrt')


@builtin('@pow')
def _pow(s, st, a, ins):
    x, y = a
    if isinstance(x, float) and isinstance(y, float) and not s.o.get('exact_roots'):
        try:
            return float(math.pow(x, y))
        except (ValueError, OverflowError):
            return float('nan')
    if isinstance(y, float) and y == 1.5:
        # x^1.5 = sqrt(x^3) for x >= 0; for x < 0 the libm result is NaN
        xr = realv(x)
        if isinstance(x, float):
            if x < 0:
                return float('nan')
            if x == 0.0:
                return 0.0
        else:
            ok, m = s.may(st, xr < 0)
            if ok:
                s.report(st, 'fp', 'pow(x, 1.5) with x that can be negative (NaN)', xr < 0, m)
                okn, mn = s.may(st, xr >= 0)
                if not okn:
                    raise PathEnd()
                s.assume(st, xr >= 0, mn)
        return _root_of(s, st, xr * xr * xr, 'pow15')
    if isinstance(y, float) and y == float(int(y)) and 0 <= y <= 4:
        r = 1.0
        for _ in range(int(y)):
            r = s.farith(st, 'fmul', r, x)
        return r
    if isinstance(x, float) and isinstance(y, float):
        try:
            return float(math.pow(x, y))
        except (ValueError, OverflowError):
            return float('nan')
    if s.o.get('libm_uf'):
        return _libm_unsupported('pow')(s, st, a, ins)
    raise Inconclusive('libm pow on a symbolic argument')


_UF = {}
_TRAPMSG = '%s raises the %s floating-point exception, which cimba_run_experiment unmasks for its trials (SIGFPE)'


def _libm_unsupported(name):
    def f(s, st, a, ins):
        if s.o.get('libm_uf') and not all(isinstance(x, (float, int)) for x in a) and all(not isinstance(x, int) for x in a):
            # an uninterpreted but deterministic function of its (real) arguments: enough for history-independence claims
            key = (name, len(a))
            fn = _UF.get(key)
            if fn is None:
                fn = z3.Function('libm_' + name, *([z3.RealSort()] * (len(a) + 1)))
                _UF[key] = fn
            args = [realv(x) for x in a]
            r = fn(*args)
            x = args[0]
            if name == 'exp':
                s.assume(st, r > 0)
            elif name == 'log':
                ok, m = s.may(st, x < 0)
                if ok:
                    s.report(st, 'fp', 'log of a value that can be negative (NaN)', x < 0, m)
                    okn, mn = s.may(st, x >= 0)
                    if not okn:
                        raise PathEnd()
                    s.assume(st, x >= 0, mn)
                if s.o.get('fp_traps'):
                    ok0, m0 = s.may(st, x == 0)
                    if ok0:
                        s.report(st, 'fp-trap', _TRAPMSG % ('log of zero', 'divide-by-zero'), x == 0, m0)
                        okp, mp = s.may(st, x > 0)
                        if not okp:
                            raise PathEnd()
                        s.assume(st, x > 0, mp)
                    ok0 = False
                else:
                    ok0, m0 = s.may_unsure(st, x == 0)
                if ok0:
                    # log(0) = -inf: harmless when only compared, a violation once it enters arithmetic or the result
                    okp, mp = s.may_unsure(st, x > 0)
                    if not okp:
                        s.assume(st, x == 0, m0)
                        return float('-inf')
                    st2 = st.fork()
                    s.assume(st2, x == 0, m0)
                    dst = ins[1] if ins is not None else None
                    if dst:
                        st2.stack[-1].regs[dst] = float('-inf')
                    s.work.append(st2)
                    s.nforks += 1
                    s.assume(st, x > 0, mp)
                s.assume(st, z3.And(z3.Implies(x == 1, r == 0), z3.Implies(x < 1, r < 0), z3.Implies(x > 1, r > 0)))
            elif name == 'pow' and len(args) == 2:
                y = args[1]
                s.assume(st, z3.And(z3.Implies(x > 0, r > 0), z3.Implies(z3.And(x == 0, y > 0), r == 0), z3.Implies(x >= 0, r >= 0),
                                    z3.Implies(z3.And(x > 0, x < 1, y > 0), r < 1), z3.Implies(z3.And(x > 1, y > 0), r > 1), z3.Implies(x == 1, r == 1)))
            return r
        if all(isinstance(x, (float, int)) for x in a):
            fn = getattr(math, name)
            try:
                return float(fn(*a))
            except (ValueError, OverflowError):
                if s.o.get('fp_traps') and name in ('log', 'log2', 'log10', 'log1p') and all(x == x for x in a):
                    raise Violation('fp-trap', _TRAPMSG % (('%s of zero' % name, 'divide-by-zero') if a[0] in (0.0, -1.0) else ('%s of a negative value' % name, 'invalid-operation')))
                if name == 'log' and a[0] == 0.0:
                    return float('-inf')
                if name == 'exp':
                    return float('inf')
                return float('nan')
        raise Inconclusive('libm %s on a symbolic argument' % name)
    return f


for _n in ('exp', 'log', 'sin', 'cos', 'tan', 'atan', 'log1p', 'expm1', 'fmod', 'log2', 'log10', 'cbrt'):
    BUILTINS['@' + _n] = _libm_unsupported(_n)


@builtin('@ldexp')
def _ldexp(s, st, a, ins):
    x, k = a
    if isinstance(k, int):
        k = sgn(k, 32)
    else:
        raise Inconclusive('ldexp with symbolic exponent')
    if isinstance(x, float):
        try:
            return math.ldexp(x, k)
        except OverflowError:
            return float('inf')
    from fractions import Fraction
    f = Fraction(2) ** k
    return x * z3.RealVal(str(f.numerator) + '/' + str(f.denominator))


@builtin('@floor')
def _floor(s, st, a, ins):
    return s.intrinsic(st, '@llvm.floor.f64', a)


@builtin('@ceil')
def _ceil(s, st, a, ins):
    return s.intrinsic(st, '@llvm.ceil.f64', a)


@builtin('@fabs')
def _fabs(s, st, a, ins):
    return s.intrinsic(st, '@llvm.fabs.f64', a)


@builtin('@clock_gettime')
def _clock(s, st, a, ins):
    st.mem.store(a[1], 8, s.fresh(st, 'clock_sec', 64))
    st.mem.store(Ptr(a[1].a, a[1].o + 8), 8, s.fresh(st, 'clock_nsec', 64))
    return 0


@builtin('@cmi_cpu_has_rdseed', '@cmi_cpu_has_rdrand')
def _has_rd(s, st, a, ins):
    return 1


@builtin('@cmi_rdseed', '@cmi_rdrand')
def _rd(s, st, a, ins):
    return s.fresh(st, 'hwrand', 64)


@builtin('@get_nprocs')
def _nprocs(s, st, a, ins):
    return s.o.get('nprocs', 2)


@builtin('@pthread_create')
def _pcreate(s, st, a, ins):
    return symthreads.pthread_create(s, st, a, ins)


@builtin('@pthread_join')
def _pjoin(s, st, a, ins):
    return symthreads.pthread_join(s, st, a, ins)


@builtin('@pthread_exit')
def _pexit(s, st, a, ins):
    return symthreads.pthread_exit(s, st, a, ins)


@builtin('@llvm.x86.sse.ldmxcsr', '@llvm.x86.sse.stmxcsr')
def _mxcsr(s, st, a, ins):
    return None


@builtin('@pthread_self')
def _pself(s, st, a, ins):
    return 1000 + st.cur_thread


@builtin('@pthread_attr_init', '@pthread_getattr_np', '@pthread_attr_destroy', '@pthread_mutex_lock',
         '@pthread_mutex_unlock', '@__pthread_register_cancel', '@__pthread_unregister_cancel')
def _pnoop(s, st, a, ins):
    return 0


@builtin('@__sigsetjmp')
def _sigsetjmp(s, st, a, ins):
    return 0


@builtin('@pthread_attr_getstack')
def _getstack(s, st, a, ins):
    # the main thread's stack: a dummy 8 MiB window that is never dereferenced by the library
    key = ('mainstack', st.cur_thread)
    p = st.extra.get(key)
    if p is None:
        p = st.mem.new(1 << 23, 'thread-stack', 'global')
        st.extra[key] = p
    st.mem.store(a[1], 8, p)
    st.mem.store(a[2], 8, 1 << 23)
    return 0


@builtin('@cmi_logger_info', '@cmi_logger_warning', '@cmi_logger_user')
def _lognoop(s, st, a, ins):
    return None


@builtin('@cmi_logger_fatal')
def _logfatal(s, st, a, ins):
    raise Violation('abort', 'cmb_logger_fatal: ' + s.cstr(st, a[3]))


@builtin('@cmi_logger_error')
def _logerror(s, st, a, ins):
    raise Violation('abort', 'cmb_logger_error (thread exit): ' + s.cstr(st, a[3]))


# ---- the coroutine context switch: contract established by the asm->SMT check (E3) ----
@builtin('@cmi_coroutine_context_switch')
def _ctx_switch(s, st, a, ins):
    old, new, ret = a
    cid = st.next_cid
    st.next_cid += 1
    cur = st.stack
    cur[-1].dst = ins[1] if ins is not None else None
    # read the target first (old and new may alias only in a buggy caller)
    tgt = s.load(st, new, ('ptr', ('i', 8)))
    st.conts[cid] = (st.mem.owner, cur)
    st.mem.store(old, 8, Cont(cid))
    if isinstance(tgt, Cont):
        ent = st.conts.pop(tgt.cid, None)
        if ent is None:
            raise Violation('control', 'context switch to a stack pointer that is no longer a suspended context')
        owner, frames = ent
        if owner is not st.mem.owner:
            frames = [f.copy() for f in frames]
        st.stack = frames
        top = frames[-1]
        if top.dst:
            top.regs[top.dst] = ret
        return _NORESULT
    if isinstance(tgt, Ptr):
        sp = tgt
        rd = lambda k: s.load(st, Ptr(sp.a, sp.o + k), ('ptr', ('i', 8)))
        r15, r14, r13, r12 = rd(0), rd(8), rd(16), rd(24)
        retaddr = rd(64)
        if not (isinstance(retaddr, Fn) and retaddr.name == '@cmi_coroutine_trampoline'):
            raise Violation('control', 'context switch into a frame whose return address is %r' % (retaddr,))
        if (sp.addr() + 72) % 16 != 0:
            raise Violation('control', 'initial coroutine frame leaves the stack misaligned at the first call')
        mx = s.load(st, Ptr(sp.a, sp.o + 52), ('i', 32))
        st.extra['mxcsr_init'] = mx
        tramp = Frame(None, {})
        tramp.kind = 1
        tramp.aux = r15
        st.stack = [tramp]
        s.call_value(st, r12, [r13, r14], None)
        return _NORESULT
    if tgt is UNDEF or tgt == 0:
        raise Violation('control', 'context switch to a coroutine without a saved or initial stack pointer')
    raise Violation('control', 'context switch to invalid stack pointer %r' % (tgt,))


class _NoResult:
    pass


_NORESULT = _NoResult()


# ---- harness intrinsics ----
@builtin('@sym_i64', '@sym_u64')
def _sym64(s, st, a, ins):
    return s.fresh(st, s.cstr(st, a[0]), 64)


@builtin('@sym_i32', '@sym_u32')
def _sym32(s, st, a, ins):
    return s.fresh(st, s.cstr(st, a[0]), 32)


@builtin('@sym_f64')
def _symf(s, st, a, ins):
    return s.fresh(st, s.cstr(st, a[0]), 64, 'real')


@builtin('@sym_choice')
def _symchoice(s, st, a, ins):
    # a choice of scenario structure: forked eagerly into its n concrete values
    name = s.cstr(st, a[1])
    n = a[0]
    if not isinstance(n, int):
        n = s.concretize(st, bvw(n, 64), 'choice count')
    if n <= 0:
        raise PathEnd()
    dst = ins[1] if ins is not None else None
    for k in range(n - 1, 0, -1):
        st2 = st.fork()
        st2.syms.append((name, z3.BitVecVal(k, 64), 'bv'))
        if dst:
            st2.stack[-1].regs[dst] = k
        s.work.append(st2)
        s.nforks += 1
    st.syms.append((name, z3.BitVecVal(0, 64), 'bv'))
    return 0


@builtin('@sym_range')
def _symrange(s, st, a, ins):
    v = s.fresh(st, s.cstr(st, a[2]), 64)
    s.assume(st, z3.And(v >= bvw(a[0], 64), v <= bvw(a[1], 64)))
    return v


def _cond(c):
    if isinstance(c, int):
        return bool(c)
    if c is UNDEF:
        raise Violation('uninit', 'uninitialised value reaches a harness condition')
    if isinstance(c, (Ptr, Fn)):
        return True
    c = c if z3.is_bool(c) else (c != 0)
    c = z3.simplify(c)
    if z3.is_true(c):
        return True
    if z3.is_false(c):
        return False
    return c


@builtin('@sym_assume')
def _assume(s, st, a, ins):
    c = _cond(a[0])
    if c is True:
        return None
    if c is False:
        raise PathEnd()
    ok, m = s.may(st, c)
    if not ok:
        raise PathEnd()
    s.assume(st, c, m)
    return None


@builtin('@sym_assert')
def _assert(s, st, a, ins):
    c = _cond(a[0])
    if c is True:
        return None
    msg = s.cstr(st, a[1])
    if c is False:
        s.report(st, 'assert', msg, label=msg)
        raise PathEnd('abort')
    ok, m = s.may(st, z3.Not(c))
    if ok:
        kn = s.o.get('known', {}).get(msg)
        if kn:
            # prefer a counterexample that is NOT one of the recorded known findings
            excl = []
            for when in kn:
                lits = []
                for tname, tval in when.items():
                    tc = st.tags.get(tname)
                    if tc is None:
                        lits = [False]
                        break
                    if isinstance(tc, bool):
                        lits.append(tc == bool(tval))
                    else:
                        lits.append(tc if tval else z3.Not(tc))
                if any(l is False for l in lits):
                    continue
                sym = [l for l in lits if l is not True]
                excl.append(z3.Not(z3.And(*sym)) if sym else False)
            if not any(e is False for e in excl) and excl:
                ok2, m2 = s.may(st, z3.And(z3.Not(c), *excl))
                if ok2:
                    m = m2
        s.report(st, 'assert', msg, z3.Not(c), m, label=msg)
        try:
            okn, mn = s.may(st, c)
        except Inconclusive:
            raise PathEnd('abort')      # violation recorded; whether the path can continue is undecided, so it ends here
        if not okn:
            raise PathEnd('abort')
        s.assume(st, c, mn)
    return None


@builtin('@sym_tag')
def _tag(s, st, a, ins):
    st.tags[s.cstr(st, a[0])] = _cond(a[1])
    return None


@builtin('@sym_draws_rewind')
def _rewind(s, st, a, ins):
    # self-composition under sym_draws: the raw generator is put back to the state it had at the first draw
    st.extra['drawidx'] = 0
    st.extra['ndraws'] = 0
    return None


@builtin('@sym_note')
def _note(s, st, a, ins):
    st.notes.append((s.cstr(st, a[0]), a[1]))
    return None


@builtin('@sym_notef')
def _notef(s, st, a, ins):
    st.notes.append((s.cstr(st, a[0]), a[1]))
    return None


@builtin('@sym_cover')
def _cover(s, st, a, ins):
    st.covers.add(s.cstr(st, a[0]))
    return None


@builtin('@sym_end')
def _end(s, st, a, ins):
    raise PathEnd('ok')


@builtin('@sym_is_replay')
def _isreplay(s, st, a, ins):
    return 0


@builtin('@sym_fn')
def _symfn(s, st, a, ins):
    name = '@' + s.cstr(st, a[0])
    if name in s.M.funcs:
        return s.fn(name)
    cands = [n for n in s.M.funcs if n.startswith(name + '.') and n[len(name) + 1:].isdigit()]
    if len(cands) == 1:
        return s.fn(cands[0])
    raise Exception('sym_fn: %s not found or ambiguous %r' % (name, cands))


@builtin('@sym_is_symbolic')
def _issym(s, st, a, ins):
    return int(is_sym(a[0]))
