# checklib.py - common driver of the per-property checks: runs parts (E1 families, CBMC harnesses,
# asm->SMT obligations), replays counterexamples natively, applies known-findings.json, prints the
# VIOLATION / KNOWN-FINDING lines, writes /verif/evidence/<id>.json and decides the exit status.
import os, sys, json, time, random, hashlib
sys.path.insert(0, os.path.dirname(os.path.abspath(__file__)))
import build, e1

VERIF = build.VERIF


class Family:
    def __init__(s, name, harness, entry, defs=(), opts=None, tier='quick', witness=False, weight=1, san_replay=False,
                 validate=6):
        s.name = name
        s.harness = harness
        s.entry = entry
        s.defs = tuple(defs)
        s.opts = dict(opts or {})
        s.tier = tier
        s.witness = witness
        s.weight = weight
        s.san_replay = san_replay
        s.validate = validate


def load_known():
    p = os.path.join(VERIF, 'known-findings.json')
    if not os.path.exists(p):
        return {'findings': [], 'fixed': []}
    return json.load(open(p))


def match_known(prop, fam, v, known):
    """returns the matching known-finding entry or None"""
    for f in known['findings']:
        if f['property'] != prop:
            continue
        if f.get('family') and not fam.startswith(f['family']):
            continue
        if f.get('kind') and f['kind'] != v['kind']:
            continue
        if f.get('label') is not None and f['label'] != (v.get('label') or ''):
            continue
        if f.get('msg_contains') and f['msg_contains'] not in v['msg']:
            continue
        if f.get('where_contains') and f['where_contains'] not in v.get('where', ''):
            continue
        ok = True
        for t, val in (f.get('when') or {}).items():
            if v.get('tags', {}).get(t) != val:
                ok = False
                break
        if ok:
            return f
    return None


def known_for_engine(prop, famname, known):
    """label -> list of 'when' dicts, handed to the engine so that it looks for counterexamples outside them"""
    out = {}
    for f in known['findings']:
        if f['property'] != prop or f.get('label') is None:
            continue
        if f.get('family') and not famname.startswith(f['family']):
            continue
        out.setdefault(f['label'], []).append(f.get('when') or {})
    return out


def _replay_env(f):
    # the native run sees the same page size as the engine (the memory pool derives its chunk geometry from it)
    env = {}
    ps = (f.opts or {}).get('pagesize')
    if ps:
        env['SYM_PAGESIZE'] = str(ps)
    if (f.opts or {}).get('fp_traps'):
        env['SYM_FPTRAPS'] = '1'       # the MXCSR value cimba_run_experiment gives its trials
    return env or None


def _doubles_exact(inputs):
    from fractions import Fraction
    for i in inputs:
        if len(i) >= 4 and i[1] == 'f':
            try:
                if Fraction(i[3]) != Fraction(float(i[2])):
                    return False
            except Exception:
                return False
    return True


class Check:
    def __init__(s, prop, level='model_checking'):
        s.prop = prop
        s.level = level
        s.tier = os.environ.get('VERIF_TIER', 'quick')
        if len(sys.argv) > 1 and sys.argv[1] in ('quick', 'thorough'):
            s.tier = sys.argv[1]
        s.seed = int(os.environ.get('VERIF_SEED', '0') or 0)
        s.t0 = time.time()
        s.d = build.scratch('cimba-verif-' + prop)
        s.known = load_known()
        s.parts = []          # per-part summaries for evidence
        s.violations = []     # normalised violation records
        s.problems = []       # machinery problems (inconclusive, replay disagreement, missing witness)
        s.samples = []
        s.assumptions = []
        s.functions = set()
        s.states = 0
        s.transitions = 0
        s.validated = 0
        s.queries = 0
        s.solver_s = 0.0
        s.obligations = 0
        s.discharged = 0
        s.trusted = []
        s.bounds = []

    # ---------------------------------------------------------------- E1
    def run_e1(s, families, assumptions=(), bounds=()):
        fams = [f for f in families if f.tier == 'quick' or s.tier == 'thorough']
        if s.tier == 'thorough':
            for f in fams:
                if f.opts.get('time_limit', 0) < 2400:
                    f.opts['time_limit'] = 2400      # more families share the cores in this tier
        s.assumptions += list(assumptions)
        s.bounds += list(bounds)
        rnd = random.Random(s.seed)
        rnd.shuffle(fams)
        jobs = []
        kept = []
        import concurrent.futures
        try:
            build.lib_ir(s.d)
        except Exception as e:
            s.problems.append('the tree does not compile to IR: %s' % str(e)[-900:])
            return
        irpool = concurrent.futures.ThreadPoolExecutor(max_workers=8)
        irfut = {}
        for f in fams:
            key = (f.harness, f.defs)
            if key not in irfut:
                irfut[key] = irpool.submit(build.harness_ir, s.d, os.path.join(VERIF, 'harness', f.harness), f.defs)
        for f in fams:
            try:
                ll = irfut[(f.harness, f.defs)].result()
            except Exception as e:
                s.problems.append('%s: the harness / the tree does not compile to IR: %s' % (f.name, str(e)[-700:]))
                continue
            kept.append(f)
            opts = dict(f.opts)
            opts['known'] = known_for_engine(s.prop, f.name, s.known)
            if f.witness:
                opts['witness_stop'] = True
            jobs.append({'name': f.name, 'll': ll, 'entry': f.entry, 'opts': opts, 'weight': f.weight,
                         'keep_paths': max(f.validate, 3)})
        irpool.shutdown()
        # native replay programs are built concurrently with the symbolic runs: one thread per distinct build
        pool = concurrent.futures.ThreadPoolExecutor(max_workers=8)
        try:
            build.native_lib(s.d)
        except Exception:
            pass
        futs = {}
        for f in fams:
            key = (f.harness, f.defs)
            if key not in futs:
                futs[key] = pool.submit(s._native, f)
        fams = kept
        results = e1.run_all(jobs) if jobs else []
        for fu in futs.values():
            try:
                fu.result()
            except Exception:
                pass
        pool.shutdown()
        for f, r in zip(fams, results):
            s._digest_e1(f, r)

    def _native(s, f, san=False):
        return build.native_harness(s.d, os.path.join(VERIF, 'harness', f.harness), f.defs, san=san, draws=bool(f.opts.get('sym_draws')))

    def _digest_e1(s, f, r):
        part = {'part': f.name, 'engine': 'E1 symex', 'harness': f.harness, 'entry': f.entry, 'defs': list(f.defs)}
        if not r['ok']:
            part['error'] = r['error']
            s.parts.append(part)
            s.problems.append('%s: engine error %s\n%s' % (f.name, r['error'], r.get('trace', '')))
            return
        part.update({k: r.get(k) for k in ('paths', 'pruned', 'cut_by_bound', 'feasibility_undecided', 'ninconclusive', 'instr', 'queries', 'solver_s', 'forks', 'branches',
                                       'wall_s', 'aborted', 'ends', 'covers')})
        part['violations'] = len(r['viol'])
        s.parts.append(part)
        s.states += r['paths'] + r['forks']
        s.transitions += r['branches'] + r['paths']
        s.queries += r['queries']
        s.solver_s += r['solver_s']
        s.obligations += r['paths']
        if r['aborted'] and not (f.witness and r['aborted'] == 'witness'):
            if s.tier == 'thorough' and f.tier == 'thorough' and r['aborted'] in ('time limit', 'path limit') and r['paths'] > 0:
                # the deepest families may run into their budget: the property held on everything explored (exit status
                # unaffected), but the bound stated for the family is NOT claimed as exhausted, and the evidence says so
                part['bound_exhausted'] = False
                s.bounds.append('NOT EXHAUSTED: family %s stopped at its %s after %d completed paths (%d forks); its bound is explored only in part'
                                % (f.name, r['aborted'], r['paths'], r['forks']))
                print('NOTE %s: %s: stopped at its %s after %d paths - bound explored in part, nothing violated' % (s.prop, f.name, r['aborted'], r['paths']))
            else:
                s.problems.append('%s: exploration stopped early (%s): bound not covered' % (f.name, r['aborted']))
        if r['ninconclusive']:
            s.problems.append('%s: %d inconclusive path(s), e.g. %s' % (f.name, r['ninconclusive'], r['inconclusive'][0]))
        if r['paths'] == 0 and not r.get('feasibility_undecided') and not r['viol'] and not f.witness:
            s.problems.append('%s: no path completed (vacuous)' % f.name)
        # --- violations: dedupe by (label/kind/msg), replay natively
        seen = {}
        for v in r['viol']:
            key = (v['kind'], v.get('label') or v['msg'], tuple(sorted((v.get('tags') or {}).items())))
            seen.setdefault(key, []).append(v)
        witness_hit = False
        for key, vs in seen.items():
            v = vs[0]
            if f.witness and (v.get('label') or '').startswith('WITNESS'):
                witness_hit = True
                continue
            rec = {'property': s.prop, 'family': f.name, 'entry': f.entry, 'harness': f.harness, 'defs': list(f.defs),
                   'kind': v['kind'], 'label': v.get('label') or '', 'msg': v['msg'], 'where': v['where'],
                   'tags': v.get('tags') or {}, 'inputs': v['inputs'], 'count': len(vs)}
            if (f.opts or {}).get('nprocs', 1) > 1:
                # found under a particular interleaving of engine threads: a native run cannot be forced into that schedule
                rec['replay'] = {'confirmed': None, 'note': 'schedule-dependent: the interleaving is part of the counterexample (see inputs / path), not replayable natively'}
            else:
                rec['replay'] = s._replay_violation(f, v)
            s.violations.append(rec)
        if f.witness and not witness_hit:
            s.problems.append('%s: reachability witness was NOT violated: harness is vacuous' % f.name)
        # --- translation validation of the engine on passing paths
        nval = 0
        binary = None
        for pth in r['sample']:
            if nval >= f.validate:
                break
            if pth['nviol'] or pth['end'] not in ('return', 'end'):
                continue
            if not _doubles_exact(pth['inputs']):
                continue         # the model's real inputs are not doubles: the native run would see rounded values
            if binary is None:
                binary = s._native(f)
            out = e1.replay(binary, f.entry, pth['inputs'], env_extra=_replay_env(f))
            nval += 1
            if out['diverged'] or out['fails'] or out['rc'] not in (0,) or not e1.notes_agree(pth['notes'], out['notes']):
                s.problems.append('%s: native run disagrees with a passing symbolic path: rc=%s fails=%s diverged=%s inputs=%s engine_notes=%s native_notes=%s stderr=%s'
                                  % (f.name, out['rc'], out['fails'], out['diverged'], pth['inputs'], pth['notes'][:8], out['notes'][:8], out['stderr'][-300:]))
            else:
                s.validated += 1
                s.discharged += 0
        if r['sample'] and len(s.samples) < 12:
            p0 = r['sample'][0]
            s.samples.append({'family': f.name, 'entry': f.entry, 'inputs': p0['inputs'][:24], 'notes': p0['notes'][:12], 'end': p0['end']})
        s.discharged += r['paths'] - sum(1 for p in r['sample'] if p['nviol'])

    def _replay_violation(s, f, v):
        try:
            binary = s._native(f, san=False)
            out = e1.replay(binary, f.entry, v['inputs'], env_extra=_replay_env(f))
            res = {'rc': out['rc'], 'fails': out['fails'][:6], 'diverged': out['diverged'], 'stderr': out['stderr'][-400:]}
            label = v.get('label') or ''
            if v['kind'] == 'assert':
                res['confirmed'] = label in out['fails']
            elif v['kind'] == 'abort':
                res['confirmed'] = out['rc'] == -6 or 'Assertion' in out['stderr'] or 'assert' in out['stderr'].lower()
            elif v['kind'] == 'fp-trap':
                res['confirmed'] = out['rc'] == -8
            else:
                res['confirmed'] = out['rc'] in (-11, -6, -7, -4) or bool(out['fails'])
                if not res['confirmed'] and (v['kind'] in ('memory', 'uninit', 'ub', 'control')):
                    try:
                        sb = s._native(f, san=True)
                        o2 = e1.replay(sb, f.entry, v['inputs'], env_extra=_replay_env(f))
                        res['san_rc'] = o2['rc']
                        res['san_stderr'] = o2['stderr'][-600:]
                        res['confirmed'] = o2['rc'] in (66, 67, -6, -11) or 'ERROR: AddressSanitizer' in o2['stderr'] or 'runtime error' in o2['stderr']
                    except Exception as e:
                        res['san_error'] = str(e)[-300:]
            return res
        except Exception as e:
            return {'error': str(e)[-500:], 'confirmed': False}

    # ---------------------------------------------------------------- generic parts (E2 / E3)
    def add_part(s, part, obligations, discharged, violations=(), problems=(), samples=(), queries=0, solver_s=0.0, states=0, transitions=0):
        s.parts.append(part)
        s.obligations += obligations
        s.discharged += discharged
        s.queries += queries
        s.solver_s += solver_s
        s.states += states
        s.transitions += transitions
        for v in violations:
            v.setdefault('property', s.prop)
            s.violations.append(v)
        s.problems += list(problems)
        for x in samples:
            if len(s.samples) < 16:
                s.samples.append(x)

    # ---------------------------------------------------------------- verdict
    def finish(s, functions=(), trusted=(), explanation=''):
        s.functions |= set(functions)
        out_lines = []
        new_viol = 0
        known_hit = {}
        unconfirmed = 0
        evdir = os.environ.get('VERIF_EVIDENCE_DIR') or os.path.join(VERIF, 'evidence')
        rdir = os.path.join(evdir, 'replays', s.prop)
        os.makedirs(rdir, exist_ok=True)
        for old in os.listdir(rdir):
            os.remove(os.path.join(rdir, old))
        n = 0
        for v in s.violations:
            k = match_known(s.prop, v.get('family', ''), v, s.known)
            if k is not None:
                known_hit.setdefault(k['id'], (k, []))[1].append(v)
                continue
            n += 1
            path = os.path.join(rdir, 'viol-%02d.json' % n)
            with open(path, 'w') as fp:
                json.dump(v, fp, indent=1, default=str)
            rp = v.get('replay') or {}
            if rp.get('confirmed', True) is False and v.get('kind') not in ('ub-pointer',):
                unconfirmed += 1
                v['unconfirmed'] = True
            new_viol += 1
            out_lines.append('VIOLATION property=%s replay=%s  [%s] %s: %s%s' % (s.prop, path, v.get('family', v.get('part', '')),
                             v.get('kind', ''), (v.get('label') or v.get('msg', ''))[:160], '  (native replay did NOT reproduce)' if v.get('unconfirmed') else ''))
        for kid, (k, vs) in known_hit.items():
            out_lines.append('KNOWN-FINDING: property=%s %s (%s; %d counterexample(s) this run)' % (s.prop, k['what'], kid, len(vs)))
        wall = time.time() - s.t0
        cov = {'states': max(1, s.states), 'transitions': max(1, s.transitions), 'traces_validated_against_impl': s.validated,
               'samples': s.samples or [{'note': 'no sample recorded'}],
               'obligations': s.obligations, 'discharged': s.discharged, 'queries': s.queries, 'solver_s': round(s.solver_s, 2),
               'functions_encoded': sorted(s.functions), 'bounds': s.bounds, 'parts': s.parts,
               'known_findings_seen': sorted(known_hit), 'machinery_problems': s.problems[:20],
               'tree': build.tree_id(), 'explanation': explanation, 'trusted_base': list(trusted), 'exhaustive': False}
        ev = {'property_id': s.prop, 'tier': s.tier, 'seed': s.seed, 'level': s.level, 'coverage': cov,
              'assumptions': s.assumptions, 'wall_s': round(wall, 2), 'violations': new_viol}
        os.makedirs(evdir, exist_ok=True)
        with open(os.path.join(evdir, s.prop + '.json'), 'w') as fp:
            json.dump(ev, fp, indent=1, default=str)
        for l in out_lines:
            print(l)
        for p in s.problems:
            print('PROBLEM %s: %s' % (s.prop, p[:1500]))
        print('%s %s: parts=%d obligations=%d violations=%d known=%d problems=%d queries=%d solver=%.1fs validated=%d wall=%.1fs'
              % (s.prop, s.tier, len(s.parts), s.obligations, new_viol, len(known_hit), len(s.problems), s.queries, s.solver_s, s.validated, wall))
        if new_viol:
            sys.exit(1)
        if s.problems:
            sys.exit(2)
        sys.exit(0)
