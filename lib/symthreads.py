# symthreads.py - engine threads for E1 (C19): pthread_create/join as interpreter threads under a sequentially
# consistent interleaving model.  A switch may happen after every atomic read-modify-write and after every plain
# load/store of a non-thread-local global; the number of preemptions per path is bounded (opts['max_preempt']).
from symmem import Ptr, Fn, Violation, PathEnd, Inconclusive
import symex


class Thread:
    __slots__ = ('stack', 'done', 'retval', 'joining', 'arg')

    def __init__(s):
        s.stack = None
        s.done = False
        s.retval = 0
        s.joining = None

    def copy(s):
        t = Thread()
        t.stack = [f.copy() for f in s.stack] if s.stack is not None else None
        t.done = s.done
        t.retval = s.retval
        t.joining = s.joining
        return t


def ensure(st):
    if st.threads is None:
        st.threads = [Thread()]          # the main thread; its stack lives in st.stack while it runs
        st.cur_thread = 0
        # globals touched before the first pthread_create belong to the main thread's TLS view
        st.extra['preempts'] = 0


def runnable(st):
    out = []
    for i, th in enumerate(st.threads):
        if th.done:
            continue
        if th.joining is not None and not st.threads[th.joining].done:
            continue
        out.append(i)
    return out


def switch_to(st, j):
    cur = st.cur_thread
    if j == cur:
        return
    st.threads[cur].stack = st.stack
    st.stack = st.threads[j].stack
    st.threads[j].stack = None
    st.cur_thread = j


def pthread_create(E, st, a, ins):
    ensure(st)
    tidp, attr, fn, arg = a
    if not isinstance(fn, Fn):
        raise Violation('control', 'pthread_create with a non-function start routine')
    th = Thread()
    root = symex.Frame(None, {})
    root.kind = 3
    f = E.M.funcs[fn.name]
    fr = symex.Frame(f, dict(zip(f['params'], [arg])))
    th.stack = [root, fr]
    st.threads.append(th)
    tid = len(st.threads) - 1
    E.store(st, tidp, ('i', 64), 1000 + tid)
    if len(st.threads) > E.o.get('max_threads', 6):
        raise Inconclusive('more than %d threads' % E.o.get('max_threads', 6))
    return 0


def pthread_join(E, st, a, ins):
    ensure(st)
    tid, retp = a
    if not isinstance(tid, int) or tid - 1000 >= len(st.threads) or tid < 1000:
        raise Violation('control', 'pthread_join on an invalid thread id')
    j = tid - 1000
    me = st.cur_thread
    if j == me:
        raise Violation('control', 'pthread_join on itself')
    st.threads[me].joining = j
    if not st.threads[j].done:
        # block: some other runnable thread must continue
        _yield_blocked(E, st)
    st.threads[me].joining = None if st.threads[j].done else j
    return 0


def _yield_blocked(E, st):
    """the current thread cannot continue now: hand over to a runnable one (forking over the choices)"""
    cand = [i for i in runnable(st) if i != st.cur_thread]
    if not cand:
        raise Violation('control', 'deadlock: no runnable thread')
    # the current thread's frame must re-check its join when resumed: rewind to re-execute the call
    st.stack[-1].ip -= 1
    for j in cand[1:]:
        st2 = st.fork()
        switch_to(st2, j)
        E.work.append(st2)
        E.nforks += 1
    switch_to(st, cand[0])
    raise _Switched()


class _Switched(Exception):
    pass


def sched_point(E, st, why):
    if st.threads is None or len(st.threads) < 2:
        return
    if st.extra.get('preempts', 0) >= E.o.get('max_preempt', 2):
        return
    cand = [i for i in runnable(st) if i != st.cur_thread]
    for j in cand:
        st2 = st.fork()
        st2.extra['preempts'] = st.extra.get('preempts', 0) + 1
        switch_to(st2, j)
        E.work.append(st2)
        E.nforks += 1


def thread_finished(E, st, v):
    """the start routine of the current thread returned (frame kind 3 on top)"""
    me = st.cur_thread
    st.threads[me].done = True
    st.threads[me].retval = v
    st.stack.pop()
    cand = runnable(st)
    if not cand:
        raise Violation('control', 'all threads finished or blocked although main has not returned')
    for j in cand[1:]:
        st2 = st.fork()
        st2.threads[me].stack = None
        _enter(st2, j)
        E.work.append(st2)
        E.nforks += 1
    _enter(st, cand[0])


def _enter(st, j):
    st.stack = st.threads[j].stack
    st.threads[j].stack = None
    st.cur_thread = j


def pthread_exit(E, st, a, ins):
    ensure(st)
    if st.cur_thread == 0:
        raise Violation('abort', 'pthread_exit on the main thread (cmb_logger_error)')
    # unwind to the thread root
    while st.stack and st.stack[-1].kind != 3:
        fr = st.stack.pop()
        if fr.allocas:
            for aid in fr.allocas:
                st.mem.allocs.pop(aid, None)
    thread_finished(E, st, a[0] if a else 0)
    raise _Switched()
