# e1.py - running E1 scenario families in parallel, replaying models natively.
import os, sys, time, json, subprocess, struct, multiprocessing, traceback, resource
sys.path.insert(0, os.path.dirname(os.path.abspath(__file__)))
import build

_MODCACHE = {}


def _module(ll):
    import irparse
    m = _MODCACHE.get(ll)
    if m is None:
        m = irparse.parse(ll)
        _MODCACHE[ll] = m
    return m


def run_family(job):
    """job: dict(name, ll, entry, opts) -> picklable summary"""
    t0 = time.time()
    try:
        resource.setrlimit(resource.RLIMIT_AS, (12 << 30, 12 << 30))
    except Exception:
        pass
    try:
        import symex
        M = _module(job['ll'])
        opts = dict(job.get('opts') or {})
        E = symex.Engine(M, opts)
        E.run('@' + job['entry'])
        keep = job.get('keep_paths', 40)
        paths = E.paths
        # keep a spread sample of completed paths for native validation
        if len(paths) > keep:
            step = len(paths) / float(keep)
            sample = [paths[int(i * step)] for i in range(keep)]
        else:
            sample = paths
        return {'name': job['name'], 'entry': job['entry'], 'ok': True, 'paths': len(paths), 'pruned': E.npruned, 'cut_by_bound': E.nskipped, 'feasibility_undecided': E.nunsure,
                'inconclusive': E.inconcl[:20], 'ninconclusive': len(E.inconcl), 'viol': E.viol, 'instr': E.ninstr,
                'queries': E.nq, 'solver_s': round(E.qt, 3), 'forks': E.nforks, 'branches': E.nbranch, 'wall_s': round(time.time() - t0, 2),
                'aborted': E.aborted, 'sample': sample, 'covers': E.covers,
                'ends': {k: sum(1 for p in paths if p['end'] == k) for k in set(p['end'] for p in paths)}}
    except Exception as e:
        return {'name': job['name'], 'entry': job['entry'], 'ok': False, 'error': '%s: %s' % (type(e).__name__, e),
                'trace': traceback.format_exc()[-3000:], 'wall_s': round(time.time() - t0, 2)}


def run_all(jobs, ncores=None):
    ncores = ncores or int(os.environ.get('VERIF_CORES') or os.cpu_count() or 16)
    if len(jobs) == 1 or ncores == 1:
        return [run_family(j) for j in jobs]
    # longest first
    order = sorted(range(len(jobs)), key=lambda i: -jobs[i].get('weight', 1))
    with multiprocessing.get_context('fork').Pool(min(ncores, len(jobs)), maxtasksperchild=1) as pool:
        res = pool.map(run_family, [jobs[i] for i in order], chunksize=1)
    out = [None] * len(jobs)
    for i, r in zip(order, res):
        out[i] = r
    return out


def write_inputs(path, inputs):
    with open(path, 'w') as f:
        for item in inputs:
            name, kind = item[0], item[1]
            nm = name.replace(' ', '_') or '_'
            if kind == 'f':
                bits = struct.unpack('<Q', struct.pack('<d', float(item[2])))[0]
                f.write('f %s %d\n' % (nm, bits))
            else:
                f.write('i %s %d\n' % (nm, item[2]))


def replay(binary, entry, inputs, timeout=60, infile=None, env_extra=None):
    """run the native harness on the given input values; returns dict(rc, fails, notes, raw)"""
    infile = infile or (binary + '.%d.in' % os.getpid())
    write_inputs(infile, inputs)
    env = dict(os.environ, SYM_REPLAY=infile, SYM_ENTRY=entry,
               ASAN_OPTIONS='detect_leaks=0:abort_on_error=0:detect_stack_use_after_return=0:exitcode=66',
               UBSAN_OPTIONS='print_stacktrace=1:halt_on_error=1:exitcode=67')
    if env_extra:
        env.update(env_extra)
    try:
        r = subprocess.run([binary], env=env, stdout=subprocess.PIPE, stderr=subprocess.PIPE, text=True, timeout=timeout, errors='replace')
        rc, out, err = r.returncode, r.stdout, r.stderr
    except subprocess.TimeoutExpired as e:
        rc, out, err = -999, (e.stdout or b'').decode('latin1') if isinstance(e.stdout, bytes) else (e.stdout or ''), 'TIMEOUT'
    fails, notes, covers = [], [], []
    diverged = None
    for line in out.splitlines():
        if line.startswith('ASSERT-FAIL '):
            fails.append(line[12:])
        elif line.startswith('NOTE '):
            parts = line.split(' ')
            notes.append([' '.join(parts[1:-1]), int(parts[-1])])
        elif line.startswith('NOTEF '):
            parts = line.split(' ')
            notes.append([' '.join(parts[1:-1]), float(parts[-1])])
        elif line.startswith('COVER '):
            covers.append(line[6:])
        elif line.startswith(('REPLAY-DIVERGED', 'REPLAY-ERROR', 'ASSUME-FAIL')):
            diverged = line
    return {'rc': rc, 'fails': fails, 'notes': notes, 'covers': covers, 'diverged': diverged,
            'stderr': err[-1500:], 'stdout_tail': out[-600:]}


def notes_agree(engine_notes, native_notes):
    """compare value notes; pointers (strings like '<3+0>') and floats within 1e-9 relative are tolerated"""
    if len(engine_notes) != len(native_notes):
        return False
    for (m1, v1), (m2, v2) in zip(engine_notes, native_notes):
        if m1 != m2:
            return False
        if isinstance(v1, str):
            continue
        if isinstance(v1, float) or isinstance(v2, float):
            a, b = float(v1), float(v2)
            if a != b and abs(a - b) > 1e-9 * max(1.0, abs(a), abs(b)):
                return False
        elif v1 != v2:
            return False
    return True
