/* h_api.c - C10: life cycle and reporting functions of the data containers, summaries, logger and names: a valid
 * program creates, fills (0..N symbolic samples), prints, resets, refills, terminates and destroys them.  Only memory
 * safety, undefined behaviour and library aborts are at stake; the text that is printed is outside. */
#include <stddef.h>
#include <stdio.h>
#include <string.h>
#include <math.h>
#include "sym.h"
#include "cmb_dataset.h"
#include "cmb_timeseries.h"
#include "cmb_datasummary.h"
#include "cmb_wtdsummary.h"
#include "cmb_logger.h"
#include "cmb_event.h"
#include "cmb_process.h"
#include "cmb_random.h"

#ifndef N
#define N 2
#endif

/* sample values and durations from small concrete sets (ties, zero durations, constant data included): the printing code
 * bins and scales them, which is covered with symbolic data under C18; here the life cycle is the subject */
static double sx(void) { static const double xv[4] = { -1.5, 0.0, 2.0, 7.25 }; return xv[sym_choice(4, "x")]; }
static double sdt(void) { static const double dv[3] = { 0.0, 1.0, 2.5 }; return dv[sym_choice(3, "dt")]; }

void a_dataset(void)
{
    struct cmb_dataset *d = cmb_dataset_create();
    uint64_t n = sym_choice(N + 1, "n");
    sym_assert(cmb_dataset_count(d) == 0, "a new dataset is empty");
    cmb_dataset_print(d, stdout);
    cmb_dataset_fivenum_print(d, stdout, true);
    for (uint64_t i = 0; i < n; i++) cmb_dataset_add(d, sx());
    sym_assert(cmb_dataset_count(d) == n, "count equals the number of samples added");
    if (n > 0) sym_assert(cmb_dataset_min(d) <= cmb_dataset_max(d), "min <= max");
    cmb_dataset_print(d, stdout);
    cmb_dataset_fivenum_print(d, stdout, false);
    cmb_dataset_histogram_print(d, stdout, 3, 0.0, 0.0);
    if (n > 1) {
        double acf[3];
        cmb_dataset_ACF(d, 1, acf);
        cmb_dataset_correlogram_print(d, stdout, 1, acf);
        cmb_dataset_correlogram_print(d, stdout, 1, NULL);
    }
    struct cmb_datasummary *s = cmb_datasummary_create();
    cmb_dataset_summarize(d, s);
    cmb_datasummary_print(s, stdout, true);
    sym_assert(cmb_datasummary_count(s) == n, "summary counts every sample");
    if (n > 1) sym_assert(cmb_datasummary_stddev(s) >= 0.0, "standard deviation is non-negative");
    cmb_datasummary_reset(s);
    sym_assert(cmb_datasummary_count(s) == 0, "a reset summary is empty");
    cmb_datasummary_print(s, stdout, false);
    cmb_datasummary_terminate(s);
    cmb_datasummary_destroy(s);
    /* reset and reuse */
    cmb_dataset_reset(d);
    sym_assert(cmb_dataset_count(d) == 0, "a reset dataset is empty");
    cmb_dataset_add(d, sx());
    sym_assert(cmb_dataset_count(d) == 1 && cmb_dataset_min(d) == cmb_dataset_max(d), "a reset dataset starts over");
    struct cmb_dataset cp;
    cmb_dataset_initialize(&cp);
    cmb_dataset_copy(&cp, d);
    cmb_dataset_add(&cp, sx());
    sym_assert(cmb_dataset_count(&cp) == 2 && cmb_dataset_count(d) == 1, "a copy is independent of its source");
    cmb_dataset_terminate(&cp);
    cmb_dataset_destroy(d);
#ifdef WITNESS
    sym_assert(n == 0, "WITNESS some samples were added");
#endif
}

void a_timeseries(void)
{
    struct cmb_timeseries *ts = cmb_timeseries_create();
    uint64_t n = sym_choice(N + 1, "n");
    cmb_timeseries_print(ts, stdout);
    double t = 0.0;
    for (uint64_t i = 0; i < n; i++) {
        t += sdt();
        cmb_timeseries_add(ts, sx(), t);
    }
    sym_assert(cmb_timeseries_count(ts) == n, "count equals the number of samples added");
    double tend = t + 1.0;
    if (n > 0) {
        cmb_timeseries_finalize(ts, tend);
        sym_assert(cmb_timeseries_min(ts) <= cmb_timeseries_max(ts), "min <= max");
    }
    cmb_timeseries_print(ts, stdout);
    cmb_timeseries_fivenum_print(ts, stdout, true);
    (void)cmb_timeseries_median(ts);
    cmb_timeseries_histogram_print(ts, stdout, 3, 0.0, 0.0);
    if (n > 1) cmb_timeseries_correlogram_print(ts, stdout, 1, NULL);
    struct cmb_wtdsummary *ws = cmb_wtdsummary_create();
    cmb_timeseries_summarize(ts, ws);
    cmb_wtdsummary_print(ws, stdout, true);
    if (cmb_wtdsummary_count(ws) > 1) sym_assert(cmb_wtdsummary_stddev(ws) >= 0.0, "weighted standard deviation is non-negative");
    cmb_wtdsummary_reset(ws);
    sym_assert(cmb_wtdsummary_count(ws) == 0, "a reset weighted summary is empty");
    cmb_wtdsummary_print(ws, stdout, false);
    cmb_wtdsummary_terminate(ws);
    cmb_wtdsummary_destroy(ws);
    cmb_timeseries_reset(ts);
    sym_assert(cmb_timeseries_count(ts) == 0, "a reset time series is empty");
    cmb_timeseries_add(ts, sx(), 1.0);
    cmb_timeseries_add(ts, sx(), 2.0);
    sym_assert(cmb_timeseries_count(ts) == 2, "a reset time series starts over");
    cmb_timeseries_destroy(ts);
}

static const char *my_time(double t) { static char buf[16]; (void)t; buf[0] = 't'; buf[1] = 0; return buf; }
static void *namer(struct cmb_process *me, void *ctx)
{
    (void)ctx;
    /* a name longer than the buffer is documented to be truncated */
    static const char longname[] = "a-process-name-that-is-much-longer-than-thirty-two-characters";
    cmb_process_name_set(me, longname);
    const char *nm = cmb_process_name(me);
    sym_assert(strlen(nm) < CMB_PROCESS_NAMEBUF_SZ, "a long process name is truncated to the buffer");
    sym_assert(strncmp(nm, longname, CMB_PROCESS_NAMEBUF_SZ - 1) == 0, "the truncated name is a prefix of the requested one");
    cmb_logger_info(stdout, "message %d from %s", 1, nm);
    cmb_logger_user(stdout, 0x4u, "user message %s", "x");
    cmb_logger_warning(stdout, "warning %g", 1.5);
    (void)cmb_process_hold(1.0);
    cmb_logger_info(stdout, "after hold");
    return 0;
}
void a_logger_names(void)
{
    cmb_event_queue_initialize(0.0);
    cmb_random_initialize(sym_u64("seed"));
    uint64_t which = sym_choice(3, "mask");
    if (which == 0) cmb_logger_flags_off(0xFFFFFFFFu);
    else if (which == 1) { cmb_logger_flags_off(0xFFFFFFFFu); cmb_logger_flags_on(0x4u); }
    else cmb_logger_flags_on(0xFFFFFFFFu);
    if (sym_choice(2, "formatter")) cmb_logger_set_timeformatter(my_time);
    cmb_logger_info(stdout, "from the dispatcher");
    struct cmb_process *p = cmb_process_create();
    cmb_process_initialize(p, "an-initial-name-that-is-also-longer-than-the-buffer", namer, 0, 0);
    sym_assert(strlen(cmb_process_name(p)) < CMB_PROCESS_NAMEBUF_SZ, "the initial name is truncated to the buffer");
    cmb_process_start(p);
    cmb_event_queue_execute();
    sym_assert(cmb_process_status(p) == CMB_PROCESS_FINISHED, "the process ran to its end");
    cmb_process_terminate(p);
    cmb_process_destroy(p);
    cmb_event_queue_terminate();
    cmb_random_terminate();
}

/* reports of objects whose recording was never switched on (or was switched on and nothing happened): the documented
 * precondition of the report functions is an initialised object */
#include "cmb_resource.h"
#include "cmb_resourcepool.h"
#include "cmb_buffer.h"
#include "cmb_objectqueue.h"
#include "cmb_priorityqueue.h"
void a_reports_unrecorded(void)
{
    cmb_logger_flags_off(0xFFFFFFFFu);
    cmb_event_queue_initialize(0.0);
    uint64_t rec = sym_choice(2, "recording");
    struct cmb_resource *r = cmb_resource_create(); cmb_resource_initialize(r, "R");
    struct cmb_resourcepool *pl = cmb_resourcepool_create(); cmb_resourcepool_initialize(pl, "PL", 3);
    struct cmb_buffer *b = cmb_buffer_create(); cmb_buffer_initialize(b, "B", 5);
    struct cmb_objectqueue *oq = cmb_objectqueue_create(); cmb_objectqueue_initialize(oq, "OQ", 2);
    struct cmb_priorityqueue *pq = cmb_priorityqueue_create(); cmb_priorityqueue_initialize(pq, "PQ", 2);
    if (rec) {
        cmb_resource_start_recording(r); cmb_resourcepool_start_recording(pl); cmb_buffer_recording_start(b);
        cmb_objectqueue_recording_start(oq); cmb_priorityqueue_recording_start(pq);
        cmb_resource_stop_recording(r); cmb_resourcepool_stop_recording(pl); cmb_buffer_recording_stop(b);
        cmb_objectqueue_recording_stop(oq); cmb_priorityqueue_recording_stop(pq);
    }
    cmb_resource_print_report(r, stdout);
    cmb_resourcepool_print_report(pl, stdout);
    cmb_buffer_print_report(b, stdout);
    cmb_objectqueue_report_print(oq, stdout);
    cmb_priorityqueue_report_print(pq, stdout);
    sym_assert(cmb_timeseries_count(cmb_resource_history(r)) == (rec ? 2u : 0u) || rec, "history of an unrecorded resource is empty");
    cmb_priorityqueue_terminate(pq); cmb_priorityqueue_destroy(pq);
    cmb_objectqueue_terminate(oq); cmb_objectqueue_destroy(oq);
    cmb_buffer_terminate(b); cmb_buffer_destroy(b);
    cmb_resourcepool_terminate(pl); cmb_resourcepool_destroy(pl);
    cmb_resource_terminate(r); cmb_resource_destroy(r);
    cmb_event_queue_terminate();
}

/* stopping processes that are not running: never started, started but not yet run, already finished (documented to warn
 * and return), then the usual end of their life */
static void *idle(struct cmb_process *me, void *ctx) { (void)me; (void)ctx; (void)cmb_process_hold(1.0); return 0; }
void a_stop_not_running(void)
{
    cmb_logger_flags_off(0xFFFFFFFFu);
    cmb_event_queue_initialize(0.0);
    struct cmb_process *p[3];
    for (int i = 0; i < 3; i++) { p[i] = cmb_process_create(); cmb_process_initialize(p[i], "p", idle, 0, 0); }
    cmb_process_start(p[1]);                         /* started, has not run yet */
    cmb_process_start(p[2]);
    uint64_t early = sym_choice(2, "stop_before_first_run");
    if (early) cmb_process_stop(p[1], 0);
    cmb_process_stop(p[0], 0);                       /* never started */
    cmb_event_queue_execute();
    cmb_process_stop(p[2], 0);                       /* finished */
    cmb_process_stop(p[0], 0);
    sym_assert(cmb_process_status(p[2]) == CMB_PROCESS_FINISHED, "a finished process stays finished");
    for (int i = 0; i < 3; i++) { cmb_process_terminate(p[i]); cmb_process_destroy(p[i]); }
    cmb_event_queue_terminate();
}

/* copies into objects that are already in use (larger or smaller than the source), then growth of the copy beyond the
 * source's capacity */
#ifndef NT
#define NT 3
#endif
#ifndef NS
#define NS 2
#endif
#ifndef NADD
#define NADD 4
#endif
void a_copy_into_used(void)
{
    struct cmb_dataset *dt = cmb_dataset_create(), *ds = cmb_dataset_create();
    struct cmb_timeseries *tt = cmb_timeseries_create(), *ts = cmb_timeseries_create();
    double x0 = sx();
    for (int i = 0; i < NT; i++) { cmb_dataset_add(dt, x0 + i); cmb_timeseries_add(tt, x0 + i, (double)i); }
    for (int i = 0; i < NS; i++) { cmb_dataset_add(ds, x0 - i); cmb_timeseries_add(ts, x0 - i, (double)i); }
    sym_assert(cmb_dataset_copy(dt, ds) == NS && cmb_dataset_count(dt) == NS, "a copy has the source's number of samples");
    sym_assert(cmb_timeseries_copy(tt, ts) == NS && cmb_timeseries_count(tt) == NS, "a copy has the source's number of samples");
    for (int i = 0; i < NS; i++) {
        sym_assert(dt->xa[i] == ds->xa[i], "a copy has the source's samples");
        sym_assert(((struct cmb_dataset *)tt)->xa[i] == ((struct cmb_dataset *)ts)->xa[i] && tt->ta[i] == ts->ta[i], "a copy has the source's samples and times");
    }
    for (int i = 0; i < NADD; i++) { cmb_dataset_add(dt, 1.0 + i); cmb_timeseries_add(tt, 1.0 + i, (double)(NS + i)); }
    sym_assert(cmb_dataset_count(dt) == NS + NADD && cmb_timeseries_count(tt) == NS + NADD, "the copy grows on its own");
    sym_assert(cmb_dataset_count(ds) == NS && cmb_timeseries_count(ts) == NS, "the source is unchanged");
    cmb_timeseries_finalize(tt, (double)(NS + NADD + 1));
    (void)cmb_timeseries_median(tt);
    (void)cmb_dataset_median(dt);
    cmb_dataset_destroy(dt); cmb_dataset_destroy(ds);
    cmb_timeseries_destroy(tt); cmb_timeseries_destroy(ts);
}

const struct sym_entry sym_entries[] = { {"a_dataset", a_dataset}, {"a_timeseries", a_timeseries}, {"a_logger_names", a_logger_names}, {"a_reports_unrecorded", a_reports_unrecorded}, {"a_stop_not_running", a_stop_not_running},
    {"a_copy_into_used", a_copy_into_used}, {0, 0} };
