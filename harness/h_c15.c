/* h_c15.c - C15: after seeding, the values returned by a fixed sequence of generator and distribution calls are a
 * function of the seed alone (not of what was drawn or cached before), and the raw stream is sfc64 bootstrapped
 * with splitmix64 + 20 discarded outputs. */
#include <stddef.h>
#include "sym.h"
#include "cmb_random.h"

#ifndef PRIOR
#define PRIOR 1
#endif
#ifndef CALLS
#define CALLS 0
#endif
#ifndef K
#define K 4
#endif

/* ---- independent reference (written from the published algorithms, not from cmb_random.c) */
static uint64_t rs;
static uint64_t ref_splitmix(void)
{
    rs += UINT64_C(0x9E3779B97F4A7C15);
    uint64_t z = rs;
    z ^= z >> 30; z *= UINT64_C(0xBF58476D1CE4E5B9);
    z ^= z >> 27; z *= UINT64_C(0x94D049BB133111EB);
    z ^= z >> 31;
    return z;
}
static uint64_t ra, rb, rc, rctr;
static uint64_t ref_sfc64(void)
{
    uint64_t out = ra + rb + rctr;
    rctr += 1;
    ra = rb ^ (rb >> 11);
    rb = rc + (rc << 3);
    rc = ((rc << 24) | (rc >> 40)) + out;
    return out;
}
static void ref_seed(uint64_t seed)
{
    rs = seed;
    ra = ref_splitmix(); rb = ref_splitmix(); rc = ref_splitmix(); rctr = ref_splitmix();
    for (int i = 0; i < 20; i++) (void)ref_sfc64();
}

/* what happened on this thread before the seeding under test */
static void prior_history(int which)
{
    switch (which) {
    case 0: break;                                                /* fresh thread: nothing */
    case 1: cmb_random_initialize(sym_u64("seed0")); for (int i = 0; i < 3; i++) (void)cmb_random_sfc64(); break;
    case 2: cmb_random_initialize(sym_u64("seed0")); { uint64_t n = 1 + sym_choice(3, "nflips") * 21; for (uint64_t i = 0; i < n; i++) (void)cmb_random_flip(); } break;
    case 3: for (int i = 0; i < 5; i++) (void)cmb_random_flip(); break;                  /* flips on the never-seeded generator */
    case 4: cmb_random_initialize(sym_u64("seed0")); (void)cmb_random_geometric(0.25); (void)cmb_random_std_gamma(2.5); (void)cmb_random_flip(); break;
    case 5: cmb_random_initialize(sym_u64("seed0")); (void)cmb_random_flip(); (void)cmb_random(); cmb_random_terminate(); (void)cmb_random_flip(); break;
    default: break;
    }
}

/* the fixed call sequence whose results must depend on the seed only */
static int nout;
static double outd[2][24];
static uint64_t outu[2][24];
static void calls(int run)
{
    nout = 0;
    switch (CALLS) {
    case 0:   /* raw stream and bits */
        for (int i = 0; i < K; i++) outu[run][nout++] = cmb_random_sfc64();
        for (int i = 0; i < 6; i++) outu[run][nout++] = (uint64_t)cmb_random_flip();
        outu[run][nout++] = cmb_random_sfc64();
        for (int i = 0; i < 3; i++) outu[run][nout++] = (uint64_t)cmb_random_flip();
        break;
    case 1:   /* uniform-based samplers without data-dependent branches */
        outd[run][nout++] = cmb_random();
        outd[run][nout++] = cmb_random_uniform(-2.0, 5.0);
        outu[run][nout] = cmb_random_bernoulli(0.3); nout++;
        outu[run][nout] = (uint64_t)cmb_random_flip(); nout++;
        break;
    case 2:   /* cached-parameter samplers */
        outu[run][nout] = cmb_random_geometric(0.25); nout++;
        outu[run][nout] = cmb_random_geometric(0.5); nout++;
        outu[run][nout] = (uint64_t)cmb_random_flip(); nout++;
        break;
    default: break;
    }
}

void h_stream(void)
{
    uint64_t seed = sym_u64("seed");
    prior_history(PRIOR);
    cmb_random_initialize(seed);
    sym_assert(cmb_random_curseed() == seed, "curseed reports the seed");
    ref_seed(seed);
    for (int i = 0; i < K; i++) {
        uint64_t got = cmb_random_sfc64(), want = ref_sfc64();
        sym_assert(got == want, "raw stream is sfc64 seeded by splitmix64 with 20 discarded outputs");
    }
#ifdef WITNESS
    sym_assert(cmb_random_sfc64() == 0, "WITNESS stream produced");
#endif
}

/* self-composition: the same seed and calls after two different prior histories */
void h_history(void)
{
    uint64_t seed = sym_u64("seed");
    prior_history(0);
    cmb_random_initialize(seed);
    calls(0);
    int n0 = nout;
    prior_history(PRIOR);
    cmb_random_initialize(seed);
    calls(1);
    sym_assert(n0 == nout, "same number of results");
    for (int i = 0; i < nout; i++) {
        sym_assert(outu[0][i] == outu[1][i], "integer results depend on the seed alone");
        sym_assert(outd[0][i] == outd[1][i], "floating-point results depend on the seed alone");
    }
#ifdef WITNESS
    sym_assert(nout == 0, "WITNESS results compared");
#endif
}

/* cached-parameter samplers (engine option sym_draws: the raw generator output is a free symbol per draw, so the
 * generator state at the seeding under test is arbitrary): the same sampler call on the same generator state gives
 * the same value on a fresh thread and after a prior call with other (or the same) parameters */
#ifndef SAMPLER
#define SAMPLER 0
#endif
static double cached_call(int sel)
{
    static const double shapes[4] = { 2.5, 1.0, 4.0, 0.5 };
    static const double ps[3] = { 0.25, 0.5, 0.75 };
    switch (SAMPLER) {
    case 0: return cmb_random_std_gamma(shapes[sel]);
    case 1: return (double)cmb_random_geometric(ps[sel % 3]);
    case 2: return cmb_random_gamma(shapes[sel], 2.0);
    default: return 0.0;
    }
}
void h_cached(void)
{
    int b = (int)sym_choice(SAMPLER == 1 ? 3 : 4, "params_under_test");
    double r0 = cached_call(b);                       /* fresh thread: caches as initialised */
    int a = (int)sym_choice(SAMPLER == 1 ? 3 : 4, "params_before");
    (void)cached_call(a);                             /* prior history with its own draws */
#if PRIOR >= 2
    int a2 = (int)sym_choice(SAMPLER == 1 ? 3 : 4, "params_before2");
    (void)cached_call(a2);
#endif
    sym_draws_rewind();                               /* re-seeding with the same seed: same generator state */
    double r1 = cached_call(b);
    sym_assert(r0 == r1, "a parameter-caching sampler returns the same value after any prior call");
#ifdef WITNESS
    sym_assert(r1 != r1, "WITNESS cached sampler compared");
#endif
}

const struct sym_entry sym_entries[] = { {"h_stream", h_stream}, {"h_history", h_history}, {"h_cached", h_cached}, {0, 0} };
