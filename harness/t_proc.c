/* engine test: two processes, hold vs interrupt */
#include "sym.h"
#include "cmb_event.h"
#include "cmb_process.h"
#include "cmb_logger.h"

static struct cmb_process *p1, *p2;
static double d1, d2;
static int64_t sig;
static int64_t r1 = 12345;
static double t1end = -1;

static void *f1(struct cmb_process *me, void *ctx)
{
    (void)ctx;
    double t0 = cmb_time();
    r1 = cmb_process_hold(d1);
    t1end = cmb_time();
    if (r1 == CMB_PROCESS_SUCCESS) {
        sym_assert(t1end == t0 + d1, "hold success at start+d");
        sym_cover("hold-success");
    } else {
        sym_assert(r1 == sig, "hold returns the interrupt signal");
        sym_assert(t1end == d2, "interrupt delivered at its instant");
        sym_cover("hold-interrupted");
    }
    return (void *)me;
}

static void *f2(struct cmb_process *me, void *ctx)
{
    (void)ctx; (void)me;
    int64_t r = cmb_process_hold(d2);
    sym_assert(r == CMB_PROCESS_SUCCESS, "p2 hold ok");
    if (cmb_process_status(p1) == CMB_PROCESS_RUNNING) {
        cmb_process_interrupt(p1, sig, 0);
    }
    return 0;
}

void h_proc(void)
{
    cmb_logger_flags_off(0xFFFFFFFFu);
    d1 = sym_f64("d1"); d2 = sym_f64("d2"); sig = sym_i64("sig");
    sym_assume(d1 >= 0.0); sym_assume(d2 >= 0.0); sym_assume(sig != 0);
    sym_assume(d1 <= 1000.0); sym_assume(d2 <= 1000.0);
    cmb_event_queue_initialize(0.0);
    p1 = cmb_process_create(); p2 = cmb_process_create();
    cmb_process_initialize(p1, "p1", f1, 0, 0);
    cmb_process_initialize(p2, "p2", f2, 0, 0);
    cmb_process_start(p1); cmb_process_start(p2);
    cmb_event_queue_execute();
    sym_assert(cmb_process_status(p1) == CMB_PROCESS_FINISHED, "p1 finished");
    sym_assert(cmb_process_exit_value(p1) == (void *)p1, "exit value");
    sym_notef("t1end", t1end);
    sym_note("r1", (uint64_t)r1);
    cmb_process_terminate(p1); cmb_process_terminate(p2);
    cmb_process_destroy(p1); cmb_process_destroy(p2);
    cmb_event_queue_terminate();
}
const struct sym_entry sym_entries[] = { {"h_proc", h_proc}, {0, 0} };
