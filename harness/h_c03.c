/* h_c03.c - C03: (a) the initial frame written by the real cmi_coroutine_context_init, exported to the
 * asm->SMT obligations (T3); (b) coroutine bookkeeping and message passing over scripts of
 * start / yield / resume / transfer / exit / return / stop / restart with symbolic messages. */
#include <stddef.h>
#include <stdbool.h>
#include "sym.h"
#include "cmi_coroutine.h"
#include "cmi_memutils.h"

extern void cmi_coroutine_context_init(struct cmi_coroutine *cp);

/* ---------------------------------------------------------------- (a) */
struct cmi_coroutine *g_cp;
static void *dummy_fn(struct cmi_coroutine *cp, void *ctx) { (void)cp; return ctx; }
static void dummy_exit(void *v) { (void)v; }
#ifndef EXITFN
#define EXITFN 0
#endif
#ifndef STKSZ
#define STKSZ 4096
#endif
void h_ctxinit(void)
{
    g_cp = cmi_coroutine_create();
    void *ctx = (void *)sym_u64("context");
    cmi_coroutine_initialize(g_cp, dummy_fn, ctx, EXITFN ? dummy_exit : 0, STKSZ);
    cmi_coroutine_context_init(g_cp);
    sym_assert(g_cp->stack_pointer != 0, "initial stack pointer set");
    sym_assert(g_cp->stack_pointer >= g_cp->stack && g_cp->stack_pointer + 72 <= g_cp->stack + STKSZ, "initial frame inside the stack");
}

/* ---------------------------------------------------------------- (b) */
enum { O_END = 0, O_YIELD, O_XFER0, O_XFER1, O_XFER2, O_XFERM, O_EXIT, O_RET, O_STOP0, O_STOP1, O_STOP2,
       O_START0, O_START1, O_START2, O_RESUME0, O_RESUME1, O_RESUME2, O_RESET0, O_RESET1, O_RESET2, O_DEEP };
#ifndef NCO
#define NCO 2
#endif
#ifndef MAINSCRIPT
#define MAINSCRIPT {O_START0, O_RESUME0}
#endif
#ifndef CS0
#define CS0 {O_YIELD, O_RET}
#endif
#ifndef CS1
#define CS1 {O_END}
#endif
#ifndef CS2
#define CS2 {O_END}
#endif
#define MAXS 7
static const int mscript[MAXS + 1] = MAINSCRIPT;
static const int cscript[3][MAXS + 1] = { CS0, CS1, CS2 };

#define MAINID 3
static struct cmi_coroutine *co[3];
static int caller_of[4], parent_of[4], finished[3], started[3], entries[3], pos[3];
static void *exitval[3];
static int flight_to = -1; static void *flight_msg;

static int cur_id(void)
{
    struct cmi_coroutine *c = cmi_coroutine_current();
    for (int i = 0; i < NCO; i++) if (co[i] == c) return i;
    sym_assert(c == cmi_coroutine_main(), "current coroutine is a known one");
    return MAINID;
}

/* the receiver's caller is the coroutine that last (re)activated it - but not one that is on its way out (return,
 * exit, stop of itself): a later yield could not go back to a finished coroutine */
static void send(int from, int to, void *msg) { flight_to = to; flight_msg = msg; if (from == MAINID || !finished[from]) caller_of[to] = from; }
static void arrived(int me, void *ret)
{
    sym_assert(cur_id() == me, "control resumes in the coroutine that gave it up");
    sym_assert(flight_to == me, "control arrives where the last switch was directed");
    sym_assert(ret == flight_msg, "the value handed over is the return value of the matching switch call");
    flight_to = -1;
}

static void do_op(int me, int op);

static void *deep(int me, int depth, uint64_t salt)
{
    /* yield from a deeper call level; locals of every level must survive */
    volatile uint64_t keep = salt ^ (uint64_t)depth;
    if (depth > 0) { void *r = deep(me, depth - 1, salt + 1); sym_assert(keep == (salt ^ (uint64_t)depth), "locals of outer frames survive a switch"); return r; }
    void *msg = (void *)sym_u64("msg");
    send(me, caller_of[me], msg);
    void *r = cmi_coroutine_yield(msg);
    arrived(me, r);
    sym_assert(keep == (salt ^ (uint64_t)depth), "locals survive a switch");
    return r;
}

static void *body(struct cmi_coroutine *cp, void *ctx)
{
    int me = (int)(intptr_t)ctx;
    sym_assert(cp == co[me], "a started coroutine receives its own handle");
    sym_assert(cmi_coroutine_current() == cp, "the started coroutine is the current one");
    sym_assert(flight_to == me, "start transfers control into the started coroutine");
    flight_to = -1;
    entries[me]++;
    volatile uint64_t local = sym_u64("local");
    uint64_t copy = local;
    for (pos[me] = 0; pos[me] < MAXS && cscript[me][pos[me]] != O_END; pos[me]++) {
        int op = cscript[me][pos[me]];
        if (op == O_RET) break;
        do_op(me, op);
        sym_assert(local == copy && cp == co[me] && (int)(intptr_t)ctx == me, "locals and arguments are intact after a switch");
    }
    void *v = (void *)sym_u64("retval");
    finished[me] = 1; exitval[me] = v;
    send(me, parent_of[me], v);
    return v;
}

static void do_op(int me, int op)
{
    void *msg = (void *)sym_u64("msg");
    void *r;
    switch (op) {
    case O_YIELD:
        if (me == MAINID) break;
        send(me, caller_of[me], msg);
        r = cmi_coroutine_yield(msg);
        arrived(me, r);
        break;
    case O_DEEP:
        if (me == MAINID) break;
        (void)deep(me, 3, (uint64_t)msg);
        break;
    case O_XFER0: case O_XFER1: case O_XFER2: case O_XFERM: {
        int to = op == O_XFERM ? MAINID : op - O_XFER0;
        if (to == me || (to != MAINID && (to >= NCO || !started[to] || finished[to]))) break;
        send(me, to, msg);
        r = cmi_coroutine_transfer(to == MAINID ? cmi_coroutine_main() : co[to], msg);
        arrived(me, r);
        break; }
    case O_EXIT:
        if (me == MAINID) break;
        finished[me] = 1; exitval[me] = msg;
        send(me, parent_of[me], msg);
        cmi_coroutine_exit(msg);
        sym_assert(0, "cmi_coroutine_exit does not return");
        break;
    case O_STOP0: case O_STOP1: case O_STOP2: {
        int j = op - O_STOP0;
        if (j >= NCO || !started[j] || finished[j]) break;
        finished[j] = 1; exitval[j] = msg;
        if (j == me) { send(me, parent_of[me], msg); }
        cmi_coroutine_stop(co[j], msg);
        sym_assert(j != me, "stopping oneself does not return");
        sym_assert(cmi_coroutine_status(co[j]) == CMI_COROUTINE_FINISHED, "a stopped coroutine is finished");
        break; }
    case O_START0: case O_START1: case O_START2: {
        int j = op - O_START0;
        if (j >= NCO || j == me || (started[j] && !finished[j])) break;
        started[j] = 1; finished[j] = 0; parent_of[j] = me;
        send(me, j, msg);
        r = cmi_coroutine_start(co[j], msg);
        arrived(me, r);
        break; }
    case O_RESUME0: case O_RESUME1: case O_RESUME2: {
        int j = op - O_RESUME0;
        if (j >= NCO || j == me || !started[j] || finished[j]) break;
        send(me, j, msg);
        r = cmi_coroutine_resume(co[j], msg);
        arrived(me, r);
        break; }
    default: break;
    }
}

void h_coro(void)
{
    for (int i = 0; i < NCO; i++) {
        co[i] = cmi_coroutine_create();
        cmi_coroutine_initialize(co[i], body, (void *)(intptr_t)i, 0, 16384);
    }
    volatile uint64_t mlocal = sym_u64("mainlocal");
    uint64_t mcopy = mlocal;
    for (int k = 0; k < MAXS && mscript[k] != O_END; k++) {
        do_op(MAINID, mscript[k]);
        sym_assert(mlocal == mcopy, "the dispatcher's locals are intact after a switch");
        sym_assert(cmi_coroutine_current() == cmi_coroutine_main(), "control is back in the main coroutine");
        for (int i = 0; i < NCO; i++) {
            if (started[i] && finished[i]) {
                sym_assert(cmi_coroutine_status(co[i]) == CMI_COROUTINE_FINISHED, "ended coroutine has status FINISHED");
                sym_assert(cmi_coroutine_exit_value(co[i]) == exitval[i], "exit value is what was returned / exited with / stopped with");
            } else if (started[i]) {
                sym_assert(cmi_coroutine_status(co[i]) == CMI_COROUTINE_RUNNING, "a started, unfinished coroutine is RUNNING");
            }
        }
    }
    for (int i = 0; i < NCO; i++) sym_note("entries", (uint64_t)entries[i]);
#ifdef WITNESS
    sym_assert(entries[0] == 0, "WITNESS coroutine 0 ran");
#endif
}

const struct sym_entry sym_entries[] = { {"h_ctxinit", h_ctxinit}, {"h_coro", h_coro}, {0, 0} };
