/* smoke test of the engine on the real hashheap (same as the design-stage prototype run) */
#include "sym.h"
#include "cmi_hashheap.h"
static bool order(const struct cmi_heap_tag *a, const struct cmi_heap_tag *b)
{
    if (a->isortkey > b->isortkey) return true;
    if (a->isortkey < b->isortkey) return false;
    return a->key < b->key;
}
#ifndef N
#define N 4
#endif
static char objs[8];
void h_smoke(void)
{
    struct cmi_hashheap hh = {0};
    cmi_hashheap_initialize(&hh, 1, order);
    int64_t pr[N]; uint64_t key[N];
    for (int i = 0; i < N; i++) {
        pr[i] = sym_i64("p");
        key[i] = cmi_hashheap_enqueue(&hh, &objs[i], 0, 0, 0, 0, 0.0, pr[i]);
    }
    int64_t last = INT64_MAX; uint64_t lastkey = 0;
    for (int i = 0; i < N; i++) {
        void **it = cmi_hashheap_dequeue(&hh);
        sym_assert(it != 0, "nonempty");
        uint64_t k = hh.heap[0].key; int64_t p = hh.heap[0].isortkey;
        sym_note("key", k);
        sym_assert(p <= last, "priority non-increasing");
        sym_assert(p != last || k > lastkey, "fifo among equals");
        sym_assert(it[0] == &objs[k-1], "payload");
        last = p; lastkey = k;
    }
    sym_assert(cmi_hashheap_dequeue(&hh) == 0, "empty at end");
    cmi_hashheap_terminate(&hh);
}
const struct sym_entry sym_entries[] = { {"h_smoke", h_smoke}, {0, 0} };
