/* h_c18.c - C18: sorting, copies, medians, five-number summaries, histograms and correlograms respect their
 * definitions.  Samples are exact reals; comparisons fork into the weak orders of the data. */
#include <stddef.h>
#include <stdio.h>
#include <math.h>
#include "sym.h"
#include "cmb_dataset.h"
#include "cmb_timeseries.h"
#include "cmi_dataset.h"

#ifndef N
#define N 3
#endif
#ifdef SYM_NATIVE
#define EQ(a, b) (fabs((a) - (b)) <= 1e-6 * (1.0 + fabs(a) + fabs(b)))
#else
#define EQ(a, b) ((a) == (b))
#endif

static double x[8], t[8], w[8];

static void mk(int n)
{
    for (int i = 0; i < n; i++) { x[i] = sym_f64("x"); sym_assume(x[i] >= -100.0 && x[i] <= 100.0); }
}

static int is_perm(const double *a, const double *b, int n)
{
    /* multiset equality by counting: every value occurs equally often in both */
    for (int i = 0; i < n; i++) {
        int ca = 0, cb = 0;
        for (int j = 0; j < n; j++) { ca += (a[j] == a[i]); cb += (b[j] == a[i]); }
        if (ca != cb) return 0;
    }
    return 1;
}

/* ---------------------------------------------------------------- dataset */
void h_ds_sort(void)
{
    struct cmb_dataset d; cmb_dataset_initialize(&d);
    mk(N);
    for (int i = 0; i < N; i++) cmb_dataset_add(&d, x[i]);
    struct cmb_dataset c = { 0 };
    sym_assert(cmb_dataset_copy(&c, &d) == (uint64_t)N, "copy returns the count");
    for (int i = 0; i < N; i++) sym_assert(c.xa[i] == x[i], "copy is element-wise exact");
    sym_assert(c.min == d.min && c.max == d.max && c.count == d.count, "copy keeps min/max/count");
    cmb_dataset_sort(&d);
    for (int i = 0; i + 1 < N; i++) sym_assert(d.xa[i] <= d.xa[i + 1], "sorted output is ascending");
    sym_assert(is_perm(d.xa, x, N), "sorting keeps the multiset of samples");
    /* the copy must be usable: adding to it stays in bounds and does not disturb the source */
    cmb_dataset_add(&c, 0.5);
    sym_assert(c.count == (uint64_t)N + 1 && c.xa[N] == 0.5 && d.count == (uint64_t)N, "a copy can be extended independently");
#ifdef WITNESS
    sym_assert(N < 2 || !(d.xa[0] < d.xa[N - 1]), "WITNESS distinct samples sorted");
#endif
    cmb_dataset_terminate(&c); cmb_dataset_terminate(&d);
}

void h_ds_median(void)
{
    struct cmb_dataset d; cmb_dataset_initialize(&d);
    mk(N);
    for (int i = 0; i < N; i++) cmb_dataset_add(&d, x[i]);
    double m = cmb_dataset_median(&d);
    int below = 0, above = 0;
    double mn = x[0], mx = x[0];
    for (int i = 0; i < N; i++) { below += (x[i] < m); above += (x[i] > m); if (x[i] < mn) mn = x[i]; if (x[i] > mx) mx = x[i]; }
    sym_assert(2 * below <= N && 2 * above <= N, "median: at most half of the samples strictly below and strictly above");
    sym_assert(m >= mn && m <= mx, "median lies inside the data range");
    for (int i = 0; i < N; i++) sym_assert(d.xa[i] == x[i], "median leaves the dataset unchanged");
    /* five-number summary: numbers captured from the print call */
    sym_capture_reset();
    cmb_dataset_fivenum_print(&d, stdout, false);
    if (sym_capture_count() == 5) {
        double f0 = sym_capture_f64(0), q1 = sym_capture_f64(1), md = sym_capture_f64(2), q3 = sym_capture_f64(3), f4 = sym_capture_f64(4);
        sym_assert(f0 == mn && f4 == mx, "five-number summary reports the true min and max");
        sym_assert(f0 <= q1 && q1 <= md && md <= q3 && q3 <= f4, "five-number summary is ordered min <= Q1 <= median <= Q3 <= max");
        sym_assert(md == m, "five-number median equals the median");
    }
    cmb_dataset_terminate(&d);
}

/* histogram: every sample lands in exactly one bin (internal fill API), and the public print calls are clean.
 * Samples, limits and bin counts are drawn from small candidate sets that contain the awkward cases: values on the
 * limits, outside them, constant data with auto-scaling, a range far beyond 2^32. */
static const double cand[8] = { -150.0, -100.0, -33.25, 0.0, 0.5, 100.0, 150.0, 4.0e10 };
static void mkcand(int n, int k) { for (int i = 0; i < n; i++) x[i] = cand[sym_choice((uint64_t)k, "xsel")]; }

void h_ds_hist(void)
{
    struct cmb_dataset d; cmb_dataset_initialize(&d);
    mkcand(N, 7);
    for (int i = 0; i < N; i++) cmb_dataset_add(&d, x[i]);
    static const unsigned nbs[3] = { 1, 3, 7 };
    unsigned nb = nbs[sym_choice(3, "bins")];
    double lo = -100.0, hi = 100.0;
    struct cmi_dataset_histogram *hp = cmi_dataset_histogram_create(nb, lo, hi);
    cmi_dataset_histogram_fill(hp, N, d.xa);
    double total = 0.0;
    for (unsigned b = 0; b < nb + 2; b++) { sym_assert(hp->hbins[b] >= 0.0, "bin counts are non-negative"); total += hp->hbins[b]; }
    sym_assert(total == (double)N, "histogram accounts for every sample exactly once");
    double under = 0.0, over = 0.0;
    for (int i = 0; i < N; i++) { under += (x[i] < lo); over += (x[i] > hi); }
    sym_assert(hp->hbins[0] == under && hp->hbins[nb + 1] >= over, "out-of-range samples go to the outer bins");
    cmi_dataset_histogram_destroy(hp);
    cmb_dataset_histogram_print(&d, stdout, nb, lo, hi);
    cmb_dataset_histogram_print(&d, stdout, nb, 0.0, 0.0);         /* auto-scale, possibly constant data */
    cmb_dataset_terminate(&d);
}

/* a range far beyond 2^32 (and a sample out there) */
void h_ds_hist_wide(void)
{
    struct cmb_dataset d; cmb_dataset_initialize(&d);
    mkcand(N, 8);
    for (int i = 0; i < N; i++) cmb_dataset_add(&d, x[i]);
    cmb_dataset_histogram_print(&d, stdout, 5, -1.0e10, 5.0e10);
    cmb_dataset_histogram_print(&d, stdout, 5, 0.0, 0.0);
    cmb_dataset_terminate(&d);
}

void h_ts_hist(void)
{
    struct cmb_timeseries ts; cmb_timeseries_initialize(&ts);
    mkcand(N, 7);
    double now = 0.0, W = 0.0;
    for (int i = 0; i < N; i++) { cmb_timeseries_add(&ts, x[i], now); double dd = (double)sym_choice(3, "dursel"); now += dd; W += dd; }
    cmb_timeseries_finalize(&ts, now);
    static const uint16_t nbs[3] = { 1, 3, 7 };
    uint16_t nb = nbs[sym_choice(3, "bins")];
    cmb_timeseries_histogram_print(&ts, stdout, nb, -100.0, 100.0);
    cmb_timeseries_histogram_print(&ts, stdout, nb, 0.0, 0.0);
    cmb_timeseries_terminate(&ts);
}

void h_ds_acf(void)
{
    struct cmb_dataset d, e; cmb_dataset_initialize(&d); cmb_dataset_initialize(&e);
    mk(N);
    double a = sym_f64("a"), b = sym_f64("b");
    sym_assume(a >= 0.125 && a <= 8.0 && b >= -50.0 && b <= 50.0);
    for (int i = 0; i < N; i++) { cmb_dataset_add(&d, x[i]); cmb_dataset_add(&e, a * x[i] + b); }
    double acf1[N], acf2[N], pacf[N];
    unsigned lag = N - 1 > 2 ? 2 : N - 1;
    cmb_dataset_ACF(&d, lag, acf1);
    cmb_dataset_ACF(&e, lag, acf2);
    sym_assert(acf1[0] == 1.0 && acf2[0] == 1.0, "autocorrelation at lag zero is one");
    /* both sides away from the documented near-constant cut-off */
    double m = 0; for (int i = 0; i < N; i++) m += x[i]; m /= N;
    double v = 0; for (int i = 0; i < N; i++) v += (x[i] - m) * (x[i] - m); v /= (N - 1);
    sym_assume(v >= 0.001 && a * a * v >= 0.001);
    for (unsigned k = 1; k <= lag; k++) sym_assert(EQ(acf1[k], acf2[k]), "autocorrelation is unchanged by shifting and positive scaling");
    if (N > 2) {
        unsigned pl = N - 2 > 2 ? 2 : N - 2;
        cmb_dataset_PACF(&d, pl, pacf, NULL);
        sym_assert(pacf[0] == 1.0 && EQ(pacf[1], acf1[1]), "PACF[0] = 1 and PACF[1] = ACF[1]");
    }
    cmb_dataset_terminate(&d); cmb_dataset_terminate(&e);
}

/* ---------------------------------------------------------------- time series */
static void mkts(struct cmb_timeseries *ts, int n)
{
    cmb_timeseries_initialize(ts);
    mk(n);
    double now = 0.0;
    for (int i = 0; i < n; i++) {
        t[i] = now;
        cmb_timeseries_add(ts, x[i], now);
        w[i] = sym_f64("dur"); sym_assume(w[i] >= 0.0 && w[i] <= 10.0);
        now += w[i];
    }
    cmb_timeseries_finalize(ts, now);       /* closes the last interval: n + 1 samples, the last with weight 0 */
}

void h_ts_sort(void)
{
    struct cmb_timeseries ts, c = { 0 };
    mkts(&ts, N);
    uint64_t n1 = N + 1;
    sym_assert(cmb_timeseries_count(&ts) == n1, "finalize appends the closing sample");
    for (int i = 0; i < N; i++) sym_assert(ts.wa[i] == w[i] && ts.ta[i] == t[i] && ts.ds.xa[i] == x[i], "samples carry their own time and duration");
    sym_assert(cmb_timeseries_copy(&c, &ts) == n1, "copy returns the count");
    for (uint64_t i = 0; i < n1; i++) sym_assert(c.ds.xa[i] == ts.ds.xa[i] && c.ta[i] == ts.ta[i] && c.wa[i] == ts.wa[i], "time series copy is element-wise exact");
    cmb_timeseries_sort_x(&c);
    for (uint64_t i = 0; i + 1 < n1; i++) sym_assert(c.ds.xa[i] <= c.ds.xa[i + 1], "sort_x output is ascending in value");
    /* every (x, t, w) triple of the original appears in the sorted series */
    for (uint64_t i = 0; i < n1; i++) {
        int found = 0;
        for (uint64_t j = 0; j < n1; j++) found |= (c.ds.xa[j] == ts.ds.xa[i] && c.ta[j] == ts.ta[i] && c.wa[j] == ts.wa[i]);
        sym_assert(found, "sorting keeps every sample together with its own time and weight");
    }
    /* a copy of the value-sorted series is exact too (the weight of the largest value now sits in the last slot) */
    struct cmb_timeseries c2 = { 0 };
    sym_assert(cmb_timeseries_copy(&c2, &c) == n1, "copy of a sorted series returns the count");
    for (uint64_t i = 0; i < n1; i++) sym_assert(c2.ds.xa[i] == c.ds.xa[i] && c2.ta[i] == c.ta[i] && c2.wa[i] == c.wa[i], "copy of a value-sorted time series is element-wise exact");
    cmb_timeseries_terminate(&c2);
    cmb_timeseries_sort_t(&c);
    for (uint64_t i = 0; i + 1 < n1; i++) sym_assert(c.ta[i] <= c.ta[i + 1], "sort_t output is ascending in time");
    /* back in time order every sample still has its own value, time and duration (equal time stamps may be permuted) */
    for (uint64_t i = 0; i < n1; i++) {
        int found = 0;
        for (uint64_t j = 0; j < n1; j++) found |= (c.ds.xa[j] == ts.ds.xa[i] && c.ta[j] == ts.ta[i] && c.wa[j] == ts.wa[i]);
        sym_assert(found, "sorting back by time keeps every sample together with its own time and weight");
    }
    /* a copy can be extended: the arrays of the copy have room for what its bookkeeping says */
    double last = c.ta[n1 - 1];
    cmb_timeseries_add(&c, 1.0, last + 1.0);
    sym_assert(cmb_timeseries_count(&c) == n1 + 1 && c.ta[n1] == last + 1.0, "a copied time series can be extended");
#ifdef WITNESS
    sym_assert(n1 < 3, "WITNESS series has samples");
#endif
    cmb_timeseries_terminate(&c); cmb_timeseries_terminate(&ts);
}

void h_ts_median(void)
{
    struct cmb_timeseries ts;
    mkts(&ts, N);
    double W = 0.0; for (int i = 0; i < N; i++) W += w[i];
    sym_assume(W > 0.01);
    double m = cmb_timeseries_median(&ts);
    double below = 0.0, above = 0.0, mn = x[0], mx = x[0];
    for (int i = 0; i < N; i++) { if (x[i] < m) below += w[i]; if (x[i] > m) above += w[i]; if (x[i] < mn) mn = x[i]; if (x[i] > mx) mx = x[i]; }
    sym_tag("first_sample_majority", 0);
    /* is the smallest value holding more than half of the total duration? */
    { double wmin = 0.0; for (int i = 0; i < N; i++) if (x[i] == mn) wmin += w[i]; sym_tag("first_sample_majority", 2.0 * wmin > W); }
    sym_assert(m >= mn && m <= mx, "duration-weighted median lies inside the data range");
    sym_assert(2.0 * below <= W, "weighted median: at most half of the total duration strictly below");
    sym_assert(2.0 * above <= W, "weighted median: at most half of the total duration strictly above");
    sym_capture_reset();
    cmb_timeseries_fivenum_print(&ts, stdout, false);
    if (sym_capture_count() == 5) {
        double f0 = sym_capture_f64(0), q1 = sym_capture_f64(1), md = sym_capture_f64(2), q3 = sym_capture_f64(3), f4 = sym_capture_f64(4);
        sym_assert(f0 == mn && f4 == mx, "time series five-number summary reports the true min and max");
        sym_assert(f0 <= q1 && q1 <= md && md <= q3 && q3 <= f4, "time series five-number summary is ordered and inside the data range");
    }
    cmb_timeseries_terminate(&ts);
}

/* an empty time series: finalize is admitted by its own entry check */
void h_ts_empty(void)
{
    struct cmb_timeseries ts; cmb_timeseries_initialize(&ts);
    sym_assert(cmb_timeseries_finalize(&ts, 1.0) == 0, "finalizing an empty series adds nothing");
    sym_assert(cmb_timeseries_count(&ts) == 0, "an empty series stays empty");
    struct cmb_dataset d; cmb_dataset_initialize(&d);
    sym_assert(cmb_dataset_median(&d) == 0.0, "median of an empty dataset is reported as 0 with a warning");
    cmb_dataset_fivenum_print(&d, stdout, true);
    cmb_dataset_histogram_print(&d, stdout, 3, 0.0, 1.0);
    cmb_dataset_sort(&d);
    struct cmb_dataset c = { 0 };
    sym_assert(cmb_dataset_copy(&c, &d) == 0, "copy of an empty dataset");
    cmb_timeseries_terminate(&ts);
}

/* growth of the arrays: 1024 -> 1025 samples with two symbolic ones, then sort and median */
void h_growth(void)
{
    struct cmb_dataset d; cmb_dataset_initialize(&d);
    mk(2);
    for (int i = 0; i < 1023; i++) cmb_dataset_add(&d, (double)((i * 37) % 101));
    cmb_dataset_add(&d, x[0]);
    sym_assert(d.count == 1024, "array full");
    cmb_dataset_add(&d, x[1]);          /* doubles the array */
    sym_assert(d.count == 1025 && d.xa[1023] == x[0] && d.xa[1024] == x[1] && d.xa[5] == (double)((5 * 37) % 101), "samples survive the doubling of the array");
    struct cmb_timeseries ts; cmb_timeseries_initialize(&ts);
    for (int i = 0; i < 1025; i++) cmb_timeseries_add(&ts, (double)(i % 7), (double)i);
    sym_assert(cmb_timeseries_count(&ts) == 1025 && ts.ta[1024] == 1024.0 && ts.wa[1023] == 1.0 && ts.ds.xa[1024] == (double)(1024 % 7), "time series survives the doubling of its arrays");
    struct cmb_timeseries c = { 0 };
    cmb_timeseries_copy(&c, &ts);
    cmb_timeseries_add(&c, 3.0, 2000.0);
    sym_assert(c.ta[1025] == 2000.0, "copy of a grown series can be extended");
    cmb_timeseries_terminate(&c); cmb_timeseries_terminate(&ts); cmb_dataset_terminate(&d);
}

const struct sym_entry sym_entries[] = { {"h_ds_sort", h_ds_sort}, {"h_ds_median", h_ds_median}, {"h_ds_hist", h_ds_hist}, {"h_ds_hist_wide", h_ds_hist_wide}, {"h_ts_hist", h_ts_hist}, {"h_ds_acf", h_ds_acf},
    {"h_ts_sort", h_ts_sort}, {"h_ts_median", h_ts_median}, {"h_ts_empty", h_ts_empty}, {"h_growth", h_growth}, {0, 0} };
