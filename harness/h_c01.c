/* h_c01.c - C01: events run exactly once in (time, priority desc, handle) order; clock and
 * current-event query; handle queries agree with the pending set.  The shadow is updated only
 * from what the harness itself asked the API to do.
 *   -DNEV=n   number of events scheduled up front
 *   -DOP1=k   mutation applied from outside before the run (see enum)
 *   -DOP2=k   mutation applied from inside the action of the first executed event
 *   -DFILL=n  extra events at concrete late times, to put the queue across a doubling threshold
 */
#include "sym.h"
#include "cmb_event.h"
#include "cmb_logger.h"

#ifndef NEV
#define NEV 3
#endif
#ifndef OP1
#define OP1 0
#endif
#ifndef OP2
#define OP2 0
#endif
#ifndef FILL
#define FILL 0
#endif
#ifndef OP1B
#define OP1B 0          /* a second mutation applied before the run, after OP1 */
#endif
#ifndef FILLTIE
#define FILLTIE 0       /* 1: the filler events all share one instant (start + 1) and have patterned priorities with ties; 2, 3: patterned times (heap shapes with parents after their children in insertion order) */
#endif
#define MAXEV (NEV + 3 + FILL)

enum { OP_NONE = 0, OP_CANCEL, OP_RESCHED, OP_REPRIO, OP_PCANCEL, OP_SCHEDULE, OP_CLEAR, OP_CANCEL_ABSENT };

struct sev {
    uint64_t handle;
    double time;
    int64_t prio;
    int pending, ran, cancelled;
    int kind;            /* which action function */
    void *object;
};
static struct sev ev[MAXEV];
static int nev;
static int nrun;
static double last_time;
static int in_action_done;
static char objs[2];

static void act_a(void *subject, void *object);
static void act_b(void *subject, void *object);
static cmb_event_func *const actions[2] = { act_a, act_b };

/* does a go before b in the documented order? */
static int before(const struct sev *a, const struct sev *b)
{
    if (a->time < b->time) return 1;
    if (a->time > b->time) return 0;
    if (a->prio > b->prio) return 1;
    if (a->prio < b->prio) return 0;
    return a->handle < b->handle;
}

static int npending(void)
{
    int n = 0;
    for (int i = 0; i < nev; i++) n += ev[i].pending;
    return n;
}

static void check_queries(const char *unused)
{
    (void)unused;
    sym_assert(cmb_event_queue_count() == (uint64_t)npending(), "queue_count equals number of pending events");
    sym_assert(cmb_event_queue_is_empty() == (npending() == 0), "queue_is_empty agrees");
    for (int i = 0; i < nev; i++) {
        if (ev[i].handle == 0) continue;
        sym_assert(cmb_event_is_scheduled(ev[i].handle) == (ev[i].pending != 0), "is_scheduled agrees with pending set");
        if (ev[i].pending) {
            sym_assert(cmb_event_time(ev[i].handle) == ev[i].time, "event_time agrees");
            sym_assert(cmb_event_priority(ev[i].handle) == ev[i].prio, "event_priority agrees");
        }
        sym_assert(cmb_event_pattern_count(CMB_ANY_ACTION, &ev[i], CMB_ANY_OBJECT) == (uint64_t)(ev[i].pending != 0),
                   "pattern_count by subject agrees");
        uint64_t f = cmb_event_pattern_find(actions[ev[i].kind], &ev[i], ev[i].object);
        sym_assert(f == (ev[i].pending ? ev[i].handle : 0), "pattern_find by full pattern agrees");
    }
    /* counts per action kind */
    for (int k = 0; k < 2; k++) {
        uint64_t n = 0;
        for (int i = 0; i < nev; i++) n += (ev[i].pending && ev[i].kind == k);
        sym_assert(cmb_event_pattern_count(actions[k], CMB_ANY_SUBJECT, CMB_ANY_OBJECT) == n, "pattern_count by action agrees");
    }
}

static int add_event(double t, int64_t p)
{
    int i = nev++;
    ev[i].time = t; ev[i].prio = p; ev[i].kind = i & 1; ev[i].object = &objs[(i >> 1) & 1];
    ev[i].pending = 1; ev[i].ran = 0; ev[i].cancelled = 0;
    ev[i].handle = cmb_event_schedule(actions[ev[i].kind], &ev[i], ev[i].object, t, p);
    sym_assert(ev[i].handle != 0, "schedule returns a non-zero handle");
    for (int j = 0; j < i; j++) sym_assert(ev[j].handle != ev[i].handle, "handles are unique");
    return i;
}

static void mutate(int op, const char *who)
{
    if (op == OP_NONE) return;
    if (op == OP_CLEAR) {
        cmb_event_queue_clear();
        for (int i = 0; i < nev; i++) if (ev[i].pending) { ev[i].pending = 0; ev[i].cancelled = 1; }
        return;
    }
    if (op == OP_SCHEDULE) {
        double dt = sym_f64("newdt"); int64_t p = sym_i64("newprio");
        sym_assume(dt >= 0.0); sym_assume(dt <= 1000.0);
        add_event(cmb_time() + dt, p);
        return;
    }
    if (op == OP_PCANCEL) {
        /* pattern: action wildcard or a_k, subject wildcard or &ev[j], object wildcard or &objs[m] */
        uint64_t wa = sym_choice(3, "pat_action"), ws = sym_choice(NEV + 1, "pat_subject"), wo = sym_choice(3, "pat_object");
        cmb_event_func *pa = wa == 2 ? CMB_ANY_ACTION : actions[wa];
        void *ps = ws == NEV ? CMB_ANY_SUBJECT : (void *)&ev[ws];
        void *po = wo == 2 ? CMB_ANY_OBJECT : (void *)&objs[wo];
        uint64_t expect = 0;
        for (int i = 0; i < nev; i++) {
            if (ev[i].pending && (wa == 2 || ev[i].kind == (int)wa) && (ws == NEV || (int)ws == i) && (wo == 2 || ev[i].object == po)) {
                expect++;
            }
        }
        sym_assert(cmb_event_pattern_count(pa, ps, po) == expect, "pattern_count agrees with shadow");
        uint64_t f = cmb_event_pattern_find(pa, ps, po);
        sym_assert((f != 0) == (expect != 0), "pattern_find finds iff a match is pending");
        uint64_t n = cmb_event_pattern_cancel(pa, ps, po);
        sym_assert(n == expect, "pattern_cancel returns the number of matches");
        for (int i = 0; i < nev; i++) {
            if (ev[i].pending && (wa == 2 || ev[i].kind == (int)wa) && (ws == NEV || (int)ws == i) && (wo == 2 || ev[i].object == po)) {
                ev[i].pending = 0; ev[i].cancelled = 1;
            }
        }
        return;
    }
    uint64_t k = sym_choice(FILLTIE ? (uint64_t)nev : (uint64_t)NEV, who);
    struct sev *e = &ev[k];
    if (op == OP_CANCEL_ABSENT) {
        /* cancelling a handle that is no longer pending: documented to return false */
        sym_assume(!e->pending);
        sym_assert(cmb_event_cancel(e->handle) == false, "cancel of a non-pending handle returns false");
        return;
    }
    if (op == OP_CANCEL) {
        bool r = cmb_event_cancel(e->handle);
        sym_assert(r == (e->pending != 0), "cancel returns whether the event was pending");
        if (e->pending) { e->pending = 0; e->cancelled = 1; }
        return;
    }
    sym_assume(e->pending);      /* documented precondition of reschedule / reprioritize */
    if (op == OP_RESCHED) {
        double dt = sym_f64("resched_dt");
        sym_assume(dt >= 0.0); sym_assume(dt <= 1000.0);
        double t = cmb_time() + dt;
        cmb_event_reschedule(e->handle, t);
        e->time = t;
    } else if (op == OP_REPRIO) {
        int64_t p = sym_i64("reprio");
        cmb_event_reprioritize(e->handle, p);
        e->prio = p;
    }
}

static void action_common(struct sev *me, void *object, int kind)
{
    sym_assert(me->pending, "a cancelled/cleared/already executed event does not run");
    sym_assert(!me->ran, "event runs at most once");
    sym_assert(me->kind == kind && me->object == object, "event runs with its own action and object");
    sym_assert(cmb_time() == me->time, "clock equals the event's scheduled time");
    sym_assert(cmb_time() >= last_time, "clock never decreases");
    sym_assert(cmb_event_current() == me->handle, "current-event query names the running event");
    for (int j = 0; j < nev; j++) {
        if (&ev[j] != me && ev[j].pending) sym_assert(before(me, &ev[j]), "running event is the minimum of the pending set");
    }
    last_time = cmb_time();
    me->pending = 0; me->ran = 1; nrun++;
    sym_note("ran", (uint64_t)(me - ev));
    if (!in_action_done) {
        in_action_done = 1;
        mutate(OP2, "target2");
        if (OP2 != OP_NONE) {
            sym_assert(cmb_event_current() == me->handle, "current-event query still names the running event after a mutation");
            sym_assert(cmb_time() == me->time, "clock unchanged by a mutation inside the action");
            check_queries("in-action");
        }
    }
}
static void act_a(void *subject, void *object) { action_common(subject, object, 0); }
static void act_b(void *subject, void *object) { action_common(subject, object, 1); }

void h_c01(void)
{
    cmb_logger_flags_off(0xFFFFFFFFu);
    double start = sym_f64("start");
    sym_assume(start >= -1000.0); sym_assume(start <= 1000.0);
    cmb_event_queue_initialize(start);
    sym_assert(cmb_time() == start, "clock starts at the start time");
    last_time = start;
    for (int i = 0; i < NEV; i++) {
        double dt = sym_f64("dt"); int64_t p = sym_i64("prio");
        sym_assume(dt >= 0.0); sym_assume(dt <= 1000.0);
        add_event(start + dt, p);
    }
    for (int i = 0; i < FILL; i++) {
        if (FILLTIE == 2) add_event(start + 1.0 + (double)((i * 5) % 7), (int64_t)(i % 3));      /* patterned distinct times: unsorted insertion order */
        else if (FILLTIE == 3) { static const double tt[9] = { 1, 2, 10, 12, 3, 4, 11, 5, 13 }; add_event(start + tt[i % 9], 0); }
        else if (FILLTIE) add_event(start + 1.0, (int64_t)((i * 3) % 5));
        else add_event(start + 2000.0 + i, (int64_t)i);
    }
    check_queries("after-schedule");
    mutate(OP1, "target1");
    if (OP1 != OP_NONE) check_queries("after-op1");
    mutate(OP1B, "target1b");
    if (OP1B != OP_NONE) check_queries("after-op1b");
    uint64_t guard = 0;
    while (cmb_event_execute_next()) {
        sym_assert(++guard <= (uint64_t)MAXEV, "no more executions than scheduled events");
        check_queries("after-event");
    }
    sym_assert(cmb_event_queue_count() == 0, "queue empty at the end");
    for (int i = 0; i < nev; i++) {
        sym_assert(ev[i].ran + ev[i].cancelled == 1, "every event either ran exactly once or was cancelled");
    }
#ifdef WITNESS
    sym_assert(nrun == 0, "WITNESS some event ran");
#endif
    cmb_event_queue_terminate();
}
const struct sym_entry sym_entries[] = { {"h_c01", h_c01}, {0, 0} };
