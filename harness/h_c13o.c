/* h_c13o.c - C13 with several observers: NC conditions subscribe (any subset, to either of two resources' guards, in a
 * symbolic order), one of them may unsubscribe again (any one, also one that never subscribed), then one waiter per
 * condition (so every waiter is the head of its queue: the known head-only forwarding finding cannot interfere) waits
 * for "my resource is free".  Both resources are released at t = 5: exactly the waiters whose condition still observes
 * the released resource's guard are resumed at t = 5 without an explicit signal; the others stay queued until the
 * explicit signals at t = 10.  unsubscribe reports whether the subscription existed. */
#include <stddef.h>
#include "sym.h"
#include "cmb_event.h"
#include "cmb_logger.h"
#include "cmb_process.h"
#include "cmb_resource.h"
#include "cmb_condition.h"

#ifndef NC
#define NC 3
#endif
#ifndef NRES
#define NRES 1
#endif
static struct cmb_condition *cv[6];
static struct cmb_resource *res[2];
static int watches[6];          /* which resource condition i is about */
static int subscribed[6];
static double resumed_at[6];
static int resumed[6];

static bool pred_free(const struct cmb_condition *c, const struct cmb_process *pp, const void *ctx)
{
    (void)c; (void)pp;
    return cmb_resource_available(res[watches[(intptr_t)ctx]]) > 0;
}

static void *waiter(struct cmb_process *me, void *ctx)
{
    (void)me;
    intptr_t i = (intptr_t)ctx;
    (void)cmb_process_hold(1.0);
    int64_t r = cmb_condition_wait(cv[i], pred_free, ctx);
    sym_assert(r == CMB_PROCESS_SUCCESS, "a condition waiter is resumed with SUCCESS");
    resumed[i]++; resumed_at[i] = cmb_time();
    return 0;
}

static void *holder(struct cmb_process *me, void *ctx)
{
    (void)me;
    struct cmb_resource *r = res[(intptr_t)ctx];
    int64_t s = cmb_resource_acquire(r);
    sym_assert(s == CMB_PROCESS_SUCCESS, "free resource acquired");
    (void)cmb_process_hold(5.0);
    cmb_resource_release(r);
    (void)cmb_process_hold(5.0);
    if ((intptr_t)ctx == 0)
        for (int i = 0; i < NC; i++) cmb_condition_signal(cv[i]);       /* explicit signals at t = 10 */
    return 0;
}

void h_observers(void)
{
    cmb_logger_flags_off(0xFFFFFFFFu);
    cmb_event_queue_initialize(0.0);
    for (int k = 0; k < NRES; k++) { res[k] = cmb_resource_create(); cmb_resource_initialize(res[k], "r"); }
    for (int i = 0; i < NC; i++) { cv[i] = cmb_condition_create(); cmb_condition_initialize(cv[i], "cv"); watches[i] = (NRES > 1) ? (int)sym_choice(NRES, "watches") : 0; }
    /* subscriptions in a symbolic order: slot j of the order is taken by any condition not yet subscribed, or skipped */
    for (int j = 0; j < NC; j++) {
        int i = (int)sym_choice(NC + 1, "subscriber");
        if (i < NC && !subscribed[i]) { cmb_condition_subscribe(cv[i], &res[watches[i]]->guard); subscribed[i] = 1; }
    }
    int u = (int)sym_choice(NC + 1, "unsubscriber");
    if (u < NC) {
        bool found = cmb_condition_unsubscribe(cv[u], &res[watches[u]]->guard);
        sym_assert(found == (subscribed[u] != 0), "unsubscribe reports whether the subscription existed");
        subscribed[u] = 0;
    }
    struct cmb_process *w[6], *h[2];
    for (intptr_t k = 0; k < NRES; k++) { h[k] = cmb_process_create(); cmb_process_initialize(h[k], "h", holder, (void *)k, 0); cmb_process_start(h[k]); }
    for (intptr_t i = 0; i < NC; i++) { w[i] = cmb_process_create(); cmb_process_initialize(w[i], "w", waiter, (void *)i, 0); cmb_process_start(w[i]); }
    cmb_event_queue_execute();
    int n = 0;
    for (int i = 0; i < NC; i++) {
        n += resumed[i];
        sym_assert(resumed[i] == 1, "every waiter is resumed exactly once");
        if (subscribed[i]) sym_assert(resumed_at[i] == 5.0, "a waiter whose condition observes the released guard is resumed in the instant of the release");
        else sym_assert(resumed_at[i] == 10.0, "a waiter whose condition does not (or no longer) observe the guard is resumed only by the explicit signal");
    }
#ifdef WITNESS
    sym_assert(n == 0, "WITNESS waiters were resumed");
#endif
    for (int i = 0; i < NC; i++) {
        if (subscribed[i]) sym_assert(cmb_condition_unsubscribe(cv[i], &res[watches[i]]->guard), "a remaining subscription is found at the end");
        cmb_process_terminate(w[i]); cmb_process_destroy(w[i]);
    }
    for (int k = 0; k < NRES; k++) { cmb_process_terminate(h[k]); cmb_process_destroy(h[k]); }
    for (int i = 0; i < NC; i++) { cmb_condition_terminate(cv[i]); cmb_condition_destroy(cv[i]); }
    for (int k = 0; k < NRES; k++) { cmb_resource_terminate(res[k]); cmb_resource_destroy(res[k]); }
    cmb_event_queue_terminate();
}
const struct sym_entry sym_entries[] = { {"h_observers", h_observers}, {0, 0} };
