/* h_sim.c - scenario interpreter for the process-level properties (C04 C05 C06 C07 C08 C09 C11 C12 C13 C14).
 * Each of up to 4 processes runs a compile-time script of operations with symbolic parameters
 * (durations, signals, priorities, amounts); which of coinciding events runs first is whatever the
 * real event queue computes from those symbolic values.  All oracles are shadows updated only from
 * what the API returned to the harness.
 *
 *   -DSCRIPT0={OP_..,..} ... -DSCRIPT3=...   per-process scripts (OP_END terminated implicitly)
 *   -DNPROC=n        number of processes
 *   -DPOOLCAP=n      pool capacity (0 = symbolic in [1,4])
 *   -DBUFCAP=n       buffer capacity (0 = symbolic in [1,4], -1 = unlimited)
 *   -DQCAP=n         object/priority queue capacity (0 = symbolic in [1,3], -1 = unlimited)
 *   -DREC=1          recording on for every object (C14 oracle active)
 *   -DSAMEPRIO=1     all processes get the same (symbolic) priority
 */
#include "sym.h"
#include "cmb_event.h"
#include "cmb_process.h"
#include "cmb_logger.h"
#include "cmb_resource.h"
#include "cmb_resourcepool.h"
#include "cmb_buffer.h"
#include "cmb_objectqueue.h"
#include "cmb_priorityqueue.h"
#include "cmb_condition.h"
#include "cmb_timeseries.h"
#include "cmb_wtdsummary.h"

enum {
    OP_END = 0,
    OP_HOLD, OP_HOLDZ, OP_TADD, OP_TCANCEL, OP_TCLEAR,
    OP_INTR0, OP_INTR1, OP_INTR2, OP_INTR3,
    OP_STOP0, OP_STOP1, OP_STOP2, OP_STOP3,
    OP_WAITP0, OP_WAITP1, OP_WAITP2, OP_WAITP3,
    OP_WAITE, OP_CANCELE, OP_YIELD,
    OP_RESUME0, OP_RESUME1, OP_RESUME2, OP_RESUME3,
    OP_EXIT,
    OP_PRIO0, OP_PRIO1, OP_PRIO2, OP_PRIO3,
    OP_ACQ, OP_PREEMPT, OP_REL,
    OP_PACQ, OP_PPRE, OP_PREL, OP_PRELALL,
    OP_BPUT, OP_BGET,
    OP_OPUT, OP_OGET,
    OP_QPUT, OP_QGET, OP_QCANCEL, OP_QREPRIO,
    OP_CWAIT, OP_CSIG, OP_CSET, OP_CCANCEL0, OP_CCANCEL1, OP_CCANCEL2, OP_CREMOVE0, OP_CREMOVE1, OP_CREMOVE2,
    OP_RECON, OP_RECOFF, OP_TSET, OP_RESTART0, OP_RESTART1, OP_RESTART2,
    OP_INTERIM          /* an interim report: every recorded history is finalized at the current time (public API on the history) */
};

#ifndef NPROC
#define NPROC 2
#endif
#ifndef SCRIPT0
#define SCRIPT0 {OP_HOLD}
#endif
#ifndef SCRIPT1
#define SCRIPT1 {OP_END}
#endif
#ifndef SCRIPT2
#define SCRIPT2 {OP_END}
#endif
#ifndef SCRIPT3
#define SCRIPT3 {OP_END}
#endif
#ifndef POOLCAP
#define POOLCAP 3
#endif
#ifndef BUFCAP
#define BUFCAP 3
#endif
#ifndef QCAP
#define QCAP 2
#endif
#ifndef REC
#define REC 0
#endif
#ifndef SAMEPRIO
#define SAMEPRIO 0
#endif
#ifndef PRIOSYM
#define PRIOSYM 0     /* 1: every process priority symbolic over all of int64; 0: concrete PRIOS */
#endif
#ifndef PRIOS
#define PRIOS {0, 0, 0, 0}
#endif
#ifndef CONCRETE_D
#define CONCRETE_D 0  /* 1: durations are chosen from {0,1,2} (needed where the library divides by elapsed time) */
#endif
#ifndef BAMT_FULL
#define BAMT_FULL 0   /* 1: buffer amounts range over all of uint64; 2: concrete choices 0..3 (where the library converts levels to double) */
#endif
#ifndef TEARDOWN
#define TEARDOWN 0    /* 1: orderly shut-down at the end: stop whoever is still suspended, print the reports, terminate and destroy everything (C10) */
#endif
static void ev_E(void *s, void *o);
#ifndef CANCELE_PATTERN
#define CANCELE_PATTERN 0   /* 1: CANCELE cancels the awaited event with cmb_event_pattern_cancel */
#endif
#ifndef OBSERVE
#define OBSERVE 0     /* 1: condition observes the resource guard via cmb_resourceguard_register, 2: via cmb_condition_subscribe */
#endif
#define MAXSTEP 8
#define MAXLED 24

static const int scripts[4][MAXSTEP + 1] = { SCRIPT0, SCRIPT1, SCRIPT2, SCRIPT3 };
/* optional concrete durations for the successive OP_HOLDs of a process (negative = symbolic): deep multi-step scenarios */
#ifndef DUR0
#define DUR0 {-1,-1,-1,-1,-1,-1,-1,-1,-1}
#endif
#ifndef DUR1
#define DUR1 {-1,-1,-1,-1,-1,-1,-1,-1,-1}
#endif
#ifndef DUR2
#define DUR2 {-1,-1,-1,-1,-1,-1,-1,-1,-1}
#endif
#ifndef DUR3
#define DUR3 {-1,-1,-1,-1,-1,-1,-1,-1,-1}
#endif
static const double durs[4][MAXSTEP + 1] = { DUR0, DUR1, DUR2, DUR3 };
static int nhold[4];

/* ------------------------------------------------------------------ shadow state */
enum { W_NONE = 0, W_HOLD, W_YIELD, W_WAITP, W_WAITE, W_ACQ, W_PACQ, W_BPUT, W_BGET, W_OPUT, W_OGET, W_QPUT, W_QGET, W_CWAIT };
enum { L_TIMER = 1, L_INTR, L_PREEMPT, L_RESUME, L_CANCEL };

struct led { int tgt, kind, delivered, cancelled; int64_t sig; double due; uint64_t handle; };
static struct led led[MAXLED];
static int nled;

struct proc {
    struct cmb_process *p;
    int64_t prio;
    int started, finished, stopped, runs, restart_pending;
    double end_time;
    void *exit_expected;
    int waiting, wait_arg;       /* what it is blocked on (W_*) */
    double wait_since;
    int64_t wait_prio;
    uint64_t pool_held, pool_req; int in_ppre; double ppre_time;
    uint64_t *amt_ptr, amt_req;
    double c_true_at; int c_must, c_src, c_head;
    double prio_time, cw_since, c_mark;
    uint64_t timers[4]; int ntimers;
};
static struct proc P[4];

static struct cmb_resource *R;
static int owner = -1;
static int barged;   /* some process took the free resource while a granted waiter had not yet run */
static struct cmb_resourcepool *PL;
static uint64_t poolcap;
static struct cmb_buffer *B;
static uint64_t bufcap, buf_level;
static int any_get_started;
static struct cmb_objectqueue *OQ;
static struct cmb_priorityqueue *PQ;
static uint64_t qcap;
static struct cmb_condition *CV;
static int64_t cstate;            /* harness-owned state word read by the condition predicates */
static int64_t cthr[4];

/* object queue shadow: FIFO of tags; priority queue shadow */
static char otags[8];
static int oq_fifo[8], oq_n, oq_next;
struct pqe { int tag; int64_t prio; uint64_t handle; int live; uint64_t seq; };
static struct pqe pq[8];
static int pq_n; static uint64_t pq_seq;

static uint64_t E_handle; static int E_state;   /* 0 pending, 1 executed, 2 cancelled */
static double E_time;

/* recording shadow (C14): trajectory of one recorded quantity per object kind */
struct traj { double t[32]; double x[32]; int n; int on; };
static struct traj trR, trP, trB, trO, trQ;

static int self_id(void)
{
    struct cmb_process *me = cmb_process_current();
    for (int i = 0; i < NPROC; i++) if (P[i].p == me) return i;
    return -1;
}

static void ledger_add(int tgt, int kind, int64_t sig, double due, uint64_t handle)
{
    sym_assume(nled < MAXLED);
    led[nled].tgt = tgt; led[nled].kind = kind; led[nled].sig = sig; led[nled].due = due;
    led[nled].delivered = 0; led[nled].cancelled = 0; led[nled].handle = handle;
    nled++;
}

static void interrupt_clears(int id);
static void cancel_timers_of(int id)
{
    for (int k = 0; k < nled; k++) if (led[k].tgt == id && led[k].kind == L_TIMER && !led[k].delivered) led[k].cancelled = 1;
    P[id].ntimers = 0;
}

/* an interrupt / preemption withdraws the target's timers, any resume that is still on its way and other pending interrupts */
static void interrupt_clears(int id)
{
    cancel_timers_of(id);
    /* the delivery wipes every wake-up still queued for the process (cmi_process_cancel_awaiteds): a resume on its way and
     * any other interrupt issued earlier in this instant are superseded by the one that is delivered */
    for (int k = 0; k < nled; k++) if (led[k].tgt == id && (led[k].kind == L_RESUME || led[k].kind == L_INTR) && !led[k].delivered) led[k].cancelled = 1;
}

static void cancel_all_of(int id)
{
    for (int k = 0; k < nled; k++) if (led[k].tgt == id && !led[k].delivered) led[k].cancelled = 1;
    P[id].ntimers = 0;
}

/* number of events the library may legitimately still have queued for process id */
static uint64_t expected_events_for(int id)
{
    uint64_t n = 0;
    for (int k = 0; k < nled; k++) if (led[k].tgt == id && !led[k].delivered && !led[k].cancelled) n++;
    return n;
}

/* C14: observe the true state (public query) after every event; the history's latest sample must show it */
static void observe(struct traj *tr, const struct cmb_timeseries *ts, double x)
{
    if (!REC || !tr->on) return;
    uint64_t n = cmb_timeseries_count(ts);
    sym_assert(n >= 1, "history has a sample once recording started");
    if (n >= 1) {
        sym_assert(ts->ds.xa[n - 1] == x, "the latest recorded sample equals the true state after every event");
        sym_assert(ts->ta[n - 1] <= cmb_time(), "sample times do not lie in the future");
    }
    if (tr->n > 0 && tr->x[tr->n - 1] == x) return;            /* unchanged */
    if (tr->n < 32) { tr->t[tr->n] = cmb_time(); tr->x[tr->n] = x; tr->n++; }
}
/* the duration stored with every sample but the last is the time to the next sample */
static void interim_check(const struct cmb_timeseries *ts)
{
    uint64_t n = cmb_timeseries_count(ts);
    for (uint64_t k = 0; k + 1 < n; k++) sym_assert(ts->wa[k] == ts->ta[k + 1] - ts->ta[k], "the duration of a recorded sample is the time to the next sample");
}
static void observe_all(void)
{
    observe(&trR, cmb_resource_history(R), (double)cmb_resource_in_use(R));
    observe(&trP, cmb_resourcepool_get_history(PL), (double)cmb_resourcepool_in_use(PL));
    observe(&trB, cmb_buffer_history(B), (double)cmb_buffer_level(B));
    observe(&trO, cmb_objectqueue_history(OQ), (double)cmb_objectqueue_length(OQ));
    observe(&trQ, cmb_priorityqueue_history(PQ), (double)cmb_priorityqueue_length(PQ));
}

/* A blocking call returned r != SUCCESS now: it must be exactly one undelivered notification for this
 * process, due at this instant, with that value.  When several candidates qualify (say a timer and an
 * interrupt with equal values on the same instant) either attribution is acceptable; the one that is
 * consistent with what the library still has queued for the process is taken. */
static void apply_delivery(int id, int hit)
{
    led[hit].delivered = 1;
    if (led[hit].kind == L_PREEMPT) {
        /* several preemptions of the same victim in one instant are delivered as one PREEMPTED signal */
        for (int k = 0; k < nled; k++) if (led[k].tgt == id && led[k].kind == L_PREEMPT && led[k].due == led[hit].due) led[k].delivered = 1;
    }
    /* the interrupt handler cancels whatever is still queued for the process when it is delivered; a pool preemption is
     * notified through that handler (cmb_process_interrupt with PREEMPTED), a resource preemption through its own wake-up */
    if (led[hit].kind == L_INTR || (led[hit].kind == L_PREEMPT && led[hit].handle == 1)) interrupt_clears(id);
    if (led[hit].kind == L_TIMER) {
        for (int t = 0; t < P[id].ntimers; t++) if (P[id].timers[t] == led[hit].handle) { P[id].timers[t] = P[id].timers[--P[id].ntimers]; break; }
    }
}

static void account_signal(int id, int64_t r, const char *unused)
{
    (void)unused;
    double now = cmb_time();
    int cand[MAXLED], nc = 0;
    for (int k = 0; k < nled; k++) {
        if (led[k].tgt == id && !led[k].delivered && !led[k].cancelled && led[k].sig == r && led[k].due == now) cand[nc++] = k;
    }
    sym_assert(nc > 0, "non-success return matches an undelivered notification for this process at this instant");
    if (nc == 0) return;
    int hit = cand[0];
    if (nc > 1) {
        uint64_t actual = cmb_event_pattern_count(CMB_ANY_ACTION, P[id].p, CMB_ANY_OBJECT);
        for (int c = 0; c < nc; c++) {
            /* events that would remain queued if candidate c is the one delivered */
            uint64_t n = 0;
            int clears = (led[cand[c]].kind == L_INTR || (led[cand[c]].kind == L_PREEMPT && led[cand[c]].handle == 1));
            for (int k = 0; k < nled; k++) {
                if (led[k].tgt != id || led[k].delivered || led[k].cancelled || k == cand[c]) continue;
                if (clears && (led[k].kind == L_TIMER || led[k].kind == L_RESUME || led[k].kind == L_INTR)) continue;
                n++;
            }
            if (n == actual) { hit = cand[c]; break; }
        }
    }
    apply_delivery(id, hit);
}

/* C06: a waiter that had to wait and is now served must be the best (priority desc, waiting time asc) among the
 * processes blocked on the same end of the same object since before this instant */
static void check_service_order(int id, int kind, double since, double call_time)
{
    if (!(cmb_time() > call_time)) return;          /* did not (provably) wait */
    for (int j = 0; j < NPROC; j++) {
        if (j == id || P[j].finished || P[j].waiting != kind) continue;
        if (!(P[j].wait_since < cmb_time())) continue;      /* arrived in this very instant: not "already waiting" */
        if (P[j].prio_time == cmb_time() || P[id].prio_time == cmb_time()) continue;   /* re-ranked in the very instant of the grant */
        sym_tag("after_barging", barged != 0);
        sym_assert(!(P[j].wait_prio > P[id].wait_prio), "a lower-priority waiter is not served ahead of a higher-priority one that was already waiting");
        sym_assert(!(P[j].wait_prio == P[id].wait_prio && P[j].wait_since < since), "among equal priorities the longest-waiting process is served first");
    }
}

static void after_block(int id)
{
    P[id].waiting = W_NONE;
    sym_assert(cmb_event_pattern_count(CMB_ANY_ACTION, P[id].p, CMB_ANY_OBJECT) == expected_events_for(id),
               "after a blocking call returns, only armed timers and undelivered notifications remain queued for the process");
}

/* C05/C07: a process that lost what it held learns it from the return value of the blocking call during which it happened:
 * a call that returns SUCCESS while a PREEMPTED notification issued to the process is still undelivered left it unaware */
static void after_block_r(int id, int64_t r)
{
    /* known finding F-C05-a: the delivery of an interrupt cancels every event queued for the process, also the PREEMPTED
     * wake-up of a preemption that happened in the same instant.  The tag singles out exactly that situation. */
    int wiped = 0;
    if (r != CMB_PROCESS_SUCCESS && r != CMB_PROCESS_PREEMPTED) {
        for (int k = 0; k < nled; k++) {
            if (led[k].tgt == id && led[k].kind == L_PREEMPT && !led[k].delivered && !led[k].cancelled && led[k].due == cmb_time()) wiped = 1;
        }
    }
    sym_tag("preempt_wiped_by_interrupt", wiped);
    after_block(id);
    if (r == CMB_PROCESS_SUCCESS) {
        for (int k = 0; k < nled; k++) {
            if (led[k].tgt == id && led[k].kind == L_PREEMPT && !led[k].delivered && !led[k].cancelled)
                sym_assert(0, "a blocking call does not return success while a preemption of the caller is still unreported");
        }
    }
}

/* the objects put into the object queue: #3 is NULL, #5 is the same object as #1 (a duplicate) */
static void *otag_ptr(int tag) { return tag == 3 ? NULL : tag == 5 ? (void *)&otags[1] : (void *)&otags[tag]; }

/* ------------------------------------------------------------------ condition predicates */
static int proc_index(const struct cmb_process *pp) { for (int i = 0; i < NPROC; i++) if (P[i].p == pp) return i; return -1; }
static bool cpred(const struct cmb_condition *cv, const struct cmb_process *pp, const void *ctx)
{
    (void)cv;
    int i = proc_index(pp);
    sym_assert(i == (int)(intptr_t)ctx, "the predicate is evaluated with the waiting process and its own context");
    bool r = cstate >= cthr[(intptr_t)ctx];
    if (r && i >= 0) P[i].c_true_at = cmb_time();
    return r;
}
static bool cpred_free(const struct cmb_condition *cv, const struct cmb_process *pp, const void *ctx)
{
    (void)cv; (void)ctx;
    int i = proc_index(pp);
    bool r = cmb_resource_available(R) > 0;
    if (r && i >= 0) P[i].c_true_at = cmb_time();
    return r;
}
/* a state change / signal happened now: every waiter whose predicate holds must be resumed at this instant */
static int mark_satisfied_waiters(int src)
{
    int any = 0, sat[4] = {0, 0, 0, 0};
    for (int i = 0; i < NPROC; i++) sat[i] = (P[i].waiting == W_CWAIT && P[i].wait_arg == 0 && !P[i].c_must && (OBSERVE ? owner < 0 : cstate >= cthr[i]));
    for (int i = 0; i < NPROC; i++) {
        if (!sat[i]) continue;
        /* is this the best-ranked waiter still queued on the condition (no other queued waiter ahead of it or tied with it)? */
        int head = 1;
        for (int j = 0; j < NPROC; j++) {
            if (j == i || P[j].waiting != W_CWAIT || P[j].wait_arg != 0 || P[j].c_must) continue;
            if (P[j].wait_prio > P[i].wait_prio || (P[j].wait_prio == P[i].wait_prio && P[j].cw_since <= P[i].cw_since)) head = 0;
        }
        P[i].c_head = head;
    }
    for (int i = 0; i < NPROC; i++) if (sat[i]) { P[i].c_must = 1; P[i].c_src = src; P[i].c_mark = cmb_time(); any = 1; }
    return any;
}

/* ------------------------------------------------------------------ invariants checked after every event */
static void invariants(void)
{
    /* C05: unique holder, queries agree */
    for (int i = 0; i < NPROC; i++) {
        sym_assert((cmb_resource_held_by_process(R, P[i].p) != 0) == (owner == i), "resource held_by_process agrees with the shadow owner");
    }
    sym_assert(cmb_resource_in_use(R) == (uint64_t)(owner >= 0), "resource in_use agrees with the shadow owner");
    sym_assert(cmb_resource_available(R) == (uint64_t)(owner < 0), "resource available agrees with the shadow owner");
    /* C07: conservation */
    uint64_t sum = 0;
    for (int i = 0; i < NPROC; i++) {
        uint64_t h = cmb_resourcepool_held_by_process(PL, P[i].p);
        if (P[i].waiting == W_PACQ) {
            /* blocked inside a multi-step acquisition: holds what it had plus a part of the request, or nothing if preempted */
            sym_assert(h <= P[i].pool_held + P[i].pool_req, "a blocked acquirer holds at most its previous holding plus the request");
        } else if (h == 0 && P[i].pool_held > 0 && !P[i].finished) {
            /* lost everything without releasing: only a preempt by a strictly higher priority process may do that */
            int culprit = 0;
            for (int j = 0; j < NPROC; j++) if (j != i && (P[j].in_ppre || P[j].ppre_time == cmb_time()) && P[j].prio > P[i].prio) culprit = 1;
            sym_assert(culprit, "pool units are only taken away by a preempt from a strictly higher priority process");
            ledger_add(i, L_PREEMPT, CMB_PROCESS_PREEMPTED, cmb_time(), 1);      /* handle 1: a pool preemption, delivered through the interrupt handler */
            P[i].pool_held = 0;
        } else sym_assert(h == P[i].pool_held, "pool held_by_process agrees with the shadow holding");
        if (P[i].waiting == W_PACQ && h == 0 && P[i].pool_held > 0) {
            /* a blocked acquirer that held something before its call and now holds nothing was preempted */
            ledger_add(i, L_PREEMPT, CMB_PROCESS_PREEMPTED, cmb_time(), 1);      /* handle 1: a pool preemption, delivered through the interrupt handler */
            P[i].pool_held = 0;
        }
        sum += h;
    }
    sym_assert(cmb_resourcepool_in_use(PL) == sum, "pool in_use equals the sum of the holdings");
    sym_assert(cmb_resourcepool_in_use(PL) <= poolcap, "pool in_use never exceeds the capacity");
    sym_assert(cmb_resourcepool_available(PL) == poolcap - sum, "pool available = capacity - in_use");
    /* C11 */
    {
        uint64_t lvl = buf_level;
        for (int i = 0; i < NPROC; i++) {
            if (P[i].waiting == W_BPUT) lvl += P[i].amt_req - *P[i].amt_ptr;      /* part already pushed in by a blocked putter */
            if (P[i].waiting == W_BGET) lvl -= *P[i].amt_ptr;                     /* part already taken by a blocked getter */
        }
        sym_assert(cmb_buffer_level(B) == lvl, "buffer level = total put - total got");
    }
    sym_assert(cmb_buffer_level(B) <= bufcap, "buffer level within capacity");
    /* C12 */
    sym_assert(cmb_objectqueue_length(OQ) == (uint64_t)oq_n, "object queue length agrees with shadow");
    sym_assert(cmb_objectqueue_length(OQ) <= qcap, "object queue length within capacity");
    for (int tg = 0; tg < oq_next && tg < 8; tg++) {
        /* position query = 1 + index of the first queued occurrence of that object, 0 if it is not queued */
        void *obj = otag_ptr(tg);
        uint64_t want = 0;
        for (int k = 0; k < oq_n && want == 0; k++) if (otag_ptr(oq_fifo[k]) == obj) want = (uint64_t)k + 1;
        sym_assert(cmb_objectqueue_position(OQ, obj) == want, "object queue position query agrees with the delivery order");
    }
    uint64_t nlive = 0; for (int k = 0; k < pq_n; k++) nlive += pq[k].live;
    sym_assert(cmb_priorityqueue_length(PQ) == nlive, "priority queue length agrees with shadow");
    sym_assert(cmb_priorityqueue_length(PQ) <= qcap, "priority queue length within capacity");
    if (REC) observe_all();
    /* C09: a finished process has nothing queued, holds nothing */
    for (int i = 0; i < NPROC; i++) {
        if (P[i].finished) {
            sym_assert(cmb_process_status(P[i].p) == CMB_PROCESS_FINISHED, "ended process has status FINISHED");
            sym_assert(cmb_event_pattern_count(CMB_ANY_ACTION, P[i].p, CMB_ANY_OBJECT) == (uint64_t)P[i].restart_pending, "no event remains queued for an ended process");
            sym_assert(owner != i && P[i].pool_held == 0, "an ended process holds nothing");
        }
    }
}

/* ------------------------------------------------------------------ end of process bookkeeping */
static void shadow_end(int id, int stopped, void *val)
{
    P[id].finished = 1; P[id].stopped = stopped; P[id].end_time = cmb_time(); P[id].exit_expected = val;
    if (P[id].waiting == W_BPUT) buf_level += P[id].amt_req - *P[id].amt_ptr;    /* stopped while blocked: what it moved stays moved */
    if (P[id].waiting == W_BGET) buf_level -= *P[id].amt_ptr;
    P[id].waiting = W_NONE;
    cancel_all_of(id);
    if (owner == id) { owner = -1; if (OBSERVE) (void)mark_satisfied_waiters(2); }
    P[id].pool_held = 0;
}


/* ------------------------------------------------------------------ the interpreter */
static void step(int id, int op)
{
    struct cmb_process *me = P[id].p;
    double now = cmb_time();
    switch (op) {
    case OP_HOLD: case OP_HOLDZ: {
        double d = 0.0;
        if (op == OP_HOLD) {
            double fixed = durs[id][nhold[id] < MAXSTEP ? nhold[id]++ : MAXSTEP];
            if (fixed >= 0.0) d = fixed;
            else if (CONCRETE_D) d = (double)sym_choice(3, "dsel");
            else { d = sym_f64("d"); sym_assume(d >= 0.0); sym_assume(d <= 8.0); }
        }
        P[id].waiting = W_HOLD;
        int64_t r = cmb_process_hold(d);
        if (r == CMB_PROCESS_SUCCESS) sym_assert(cmb_time() == now + d, "hold returning success observes start + duration");
        else account_signal(id, r, "hold");
        after_block_r(id, r);
        break; }
    case OP_TADD: {
        double dt; int64_t sig = sym_range(1, 3, "tsig");
        if (CONCRETE_D) dt = (double)sym_choice(3, "dtsel");
        else { dt = sym_f64("dt"); sym_assume(dt >= 0.0); sym_assume(dt <= 8.0); }
        if (P[id].ntimers >= 4) break;
        uint64_t h = cmb_process_timer_add(me, dt, sig);
        P[id].timers[P[id].ntimers++] = h;
        ledger_add(id, L_TIMER, sig, now + dt, h);
        break; }
    case OP_TSET: {
        double dt; int64_t sig = sym_range(1, 3, "tsig");
        if (CONCRETE_D) dt = (double)sym_choice(3, "dtsel");
        else { dt = sym_f64("dt"); sym_assume(dt >= 0.0); sym_assume(dt <= 8.0); }
        uint64_t h = cmb_process_timer_set(me, dt, sig);       /* documented: clears the previous timers of the process */
        cancel_timers_of(id);
        P[id].timers[P[id].ntimers++] = h;
        ledger_add(id, L_TIMER, sig, now + dt, h);
        break; }
    case OP_TCANCEL: {
        if (P[id].ntimers == 0) break;
        uint64_t h = P[id].timers[--P[id].ntimers];
        bool r = cmb_process_timer_cancel(me, h);
        sym_assert(r, "cancelling an armed timer returns true");
        for (int k = 0; k < nled; k++) if (led[k].tgt == id && led[k].kind == L_TIMER && led[k].handle == h) led[k].cancelled = 1;
        break; }
    case OP_TCLEAR:
        cmb_process_timers_clear(me);
        cancel_timers_of(id);
        break;
    case OP_INTR0: case OP_INTR1: case OP_INTR2: case OP_INTR3: {
        int j = op - OP_INTR0;
        if (j >= NPROC || j == id || !P[j].started || P[j].finished) break;
        int64_t sig = sym_range(1, 3, "isig"), pri = sym_range(-1, 1, "ipri");
        cmb_process_interrupt(P[j].p, sig, pri);
        ledger_add(j, L_INTR, sig, now, 0);
        break; }
    case OP_STOP0: case OP_STOP1: case OP_STOP2: case OP_STOP3: {
        int j = op - OP_STOP0;
        if (j >= NPROC || !P[j].started || P[j].finished) break;
        void *val = (void *)(intptr_t)(700 + j);
        /* shadow first: the call does not return when a process stops itself */
        int self = (j == id);
        int had_r = (owner == j); uint64_t had_p = P[j].pool_held;
        (void)had_r; (void)had_p;
        shadow_end(j, 1, val);
        cmb_process_stop(P[j].p, val);
        sym_assert(!self, "stopping oneself does not return to the caller");
        break; }
    case OP_WAITP0: case OP_WAITP1: case OP_WAITP2: case OP_WAITP3: {
        int j = op - OP_WAITP0;
        if (j >= NPROC || j == id) break;
        int was_done = P[j].finished;
        P[id].waiting = W_WAITP; P[id].wait_arg = j;
        int64_t r = cmb_process_wait_process(P[j].p);
        if (r == CMB_PROCESS_SUCCESS) {
            sym_assert(P[j].finished && !P[j].stopped || (P[j].finished && was_done), "wait_process success means the awaited process ended normally");
            if (!was_done) sym_assert(cmb_time() == P[j].end_time, "waiter is resumed at the instant the awaited process ends");
        } else if (r == CMB_PROCESS_STOPPED && P[j].finished && P[j].stopped && cmb_time() == P[j].end_time && !was_done) {
            /* the awaited process was stopped now */
        } else account_signal(id, r, "wait_process");
        after_block_r(id, r);
        break; }
    case OP_WAITE: {
        if (E_state != 0) break;
        P[id].waiting = W_WAITE;
        int64_t r = cmb_process_wait_event(E_handle);
        if (r == CMB_PROCESS_SUCCESS) sym_assert(E_state == 1 && cmb_time() == E_time, "wait_event success at the instant the event executed");
        else if (r == CMB_PROCESS_CANCELLED && E_state == 2 && cmb_time() == E_time) { }
        else account_signal(id, r, "wait_event");
        after_block_r(id, r);
        break; }
    case OP_CANCELE:
        if (E_state == 0) {
#if CANCELE_PATTERN
            /* the event is cancelled by pattern, not by handle: its waiters are notified just the same */
            sym_assert(cmb_event_pattern_cancel(ev_E, CMB_ANY_SUBJECT, CMB_ANY_OBJECT) == 1, "pattern cancel finds the pending event");
#else
            sym_assert(cmb_event_cancel(E_handle), "cancel of the pending event");
#endif
            E_state = 2; E_time = now;
        }
        break;
    case OP_YIELD: {
        P[id].waiting = W_YIELD;
        int64_t r = cmb_process_yield();
        account_signal(id, r, "yield");
        after_block_r(id, r);
        break; }
    case OP_RESUME0: case OP_RESUME1: case OP_RESUME2: case OP_RESUME3: {
        int j = op - OP_RESUME0;
        if (j >= NPROC || j == id || !P[j].started || P[j].finished || P[j].waiting != W_YIELD) break;
        int64_t sig = sym_range(1, 3, "rsig");
        cmb_process_resume(P[j].p, sig);
        ledger_add(j, L_RESUME, sig, now, 0);
        break; }
    case OP_EXIT: {
        void *val = (void *)(intptr_t)(500 + id);
        shadow_end(id, 0, val);
        cmb_process_exit(val);
        sym_assert(0, "cmb_process_exit does not return");
        break; }
    case OP_PRIO0: case OP_PRIO1: case OP_PRIO2: case OP_PRIO3: {
        int j = op - OP_PRIO0;
        if (j >= NPROC || !P[j].started || P[j].finished) break;
        int64_t pr = sym_i64("newprio");
        cmb_process_priority_set(P[j].p, pr);
        P[j].prio = pr; P[j].prio_time = now;
        if (P[j].waiting >= W_ACQ) P[j].wait_prio = pr;
        break; }
    /* ---------------- resource (C05) */
    case OP_ACQ: case OP_PREEMPT: {
        if (owner == id) break;
        P[id].waiting = W_ACQ; P[id].wait_since = now; P[id].wait_prio = P[id].prio;
        int prev = owner;
        int64_t r = op == OP_ACQ ? cmb_resource_acquire(R) : cmb_resource_preempt(R);
        if (r == CMB_PROCESS_SUCCESS) {
            if (op == OP_PREEMPT && prev >= 0 && owner == prev && cmb_time() == now) {
                /* took it from the holder: only allowed from an equal or lower priority (documented >=) */
                sym_assert(P[id].prio >= P[prev].prio, "preempt only takes the resource from a holder of equal or lower priority");
                interrupt_clears(prev); ledger_add(prev, L_PREEMPT, CMB_PROCESS_PREEMPTED, now, 0);
                owner = -1;
            }
            sym_assert(owner == -1, "acquire/preempt succeeds only while no other process holds the resource");
            owner = id;
            if (!(cmb_time() > now)) { for (int j = 0; j < NPROC; j++) if (j != id && P[j].waiting == W_ACQ && !P[j].finished) barged = 1; }
            if (op == OP_ACQ) check_service_order(id, W_ACQ, P[id].wait_since, now);
        } else account_signal(id, r, "acquire");
        after_block_r(id, r);
        break; }
    case OP_REL:
        if (owner != id) break;
        owner = -1;
        if (OBSERVE) (void)mark_satisfied_waiters(2);
        cmb_resource_release(R);
        break;
    /* ---------------- pool (C07) */
    case OP_PACQ: case OP_PPRE: {
        uint64_t n = (uint64_t)sym_range(1, 4, "pamount");
        sym_assume(n <= poolcap);
        uint64_t before = P[id].pool_held;
        P[id].waiting = W_PACQ; P[id].wait_since = now; P[id].wait_prio = P[id].prio; P[id].pool_req = n;
        if (op == OP_PPRE) { P[id].in_ppre = 1; P[id].ppre_time = now; }
        /* preemption bookkeeping: who holds what before the call, to attribute mugged units */
        uint64_t held0[4]; for (int i = 0; i < NPROC; i++) held0[i] = P[i].pool_held;
        int64_t r = op == OP_PACQ ? cmb_resourcepool_acquire(PL, n) : cmb_resourcepool_preempt(PL, n);
        (void)held0;
        P[id].in_ppre = 0;
        before = P[id].pool_held;      /* may have been zeroed by a preemption observed while blocked */
        if (r == CMB_PROCESS_SUCCESS) {
            sym_assert(cmb_resourcepool_held_by_process(PL, me) == before + n, "successful pool acquire/preempt adds exactly the requested amount");
            P[id].pool_held = before + n;
            /* victims of a preempt: whoever lost its holding at this instant */
            for (int i = 0; i < NPROC; i++) {
                if (i != id && P[i].pool_held > 0 && cmb_resourcepool_held_by_process(PL, P[i].p) == 0 && !P[i].finished) {
                    sym_assert(op == OP_PPRE, "only a preempt takes units from another process");
                    sym_assert(P[i].prio < P[id].prio, "pool preempt only takes from strictly lower priority processes");
                    P[i].pool_held = 0;
                    ledger_add(i, L_PREEMPT, CMB_PROCESS_PREEMPTED, cmb_time(), 1);      /* handle 1: a pool preemption, delivered through the interrupt handler */
                }
            }
        } else {
            int have = 0;
            for (int k = 0; k < nled; k++) if (led[k].tgt == id && !led[k].delivered && !led[k].cancelled && led[k].sig == r && led[k].due == cmb_time()) have = 1;
            int culprit = 0;
            for (int j = 0; j < NPROC; j++) if (j != id && (P[j].in_ppre || P[j].ppre_time == cmb_time()) && P[j].prio > P[id].prio) culprit = 1;
            if (r == CMB_PROCESS_PREEMPTED && !have && culprit && cmb_resourcepool_held_by_process(PL, me) == 0) {
                /* mugged of a partial grab made during this call: nothing the harness could have seen from outside */
                interrupt_clears(id);
            } else account_signal(id, r, "pool acquire");
            if (r == CMB_PROCESS_PREEMPTED && P[id].pool_held == 0) {
                sym_assert(cmb_resourcepool_held_by_process(PL, me) == 0, "a preempted process holds nothing of the pool");
            } else {
                sym_assert(cmb_resourcepool_held_by_process(PL, me) == P[id].pool_held, "an interrupted pool acquire leaves the caller holding what it held before the call");
            }
        }
        after_block_r(id, r);
        break; }
    case OP_PREL: case OP_PRELALL: {
        if (P[id].pool_held == 0) break;
        uint64_t n = P[id].pool_held;
        if (op == OP_PREL) { n = (uint64_t)sym_range(1, 4, "prel"); sym_assume(n <= P[id].pool_held); }
        P[id].pool_held -= n;
        cmb_resourcepool_release(PL, n);
        sym_assert(cmb_resourcepool_held_by_process(PL, me) == P[id].pool_held, "release lowers the caller's holding by exactly the amount");
        break; }
    /* ---------------- buffer (C11) */
    case OP_BPUT: case OP_BGET: {
        uint64_t n = BAMT_FULL == 1 ? sym_u64("bamount") : BAMT_FULL == 2 ? sym_choice(4, "bamount") : (uint64_t)sym_range(0, 4, "bamount");
        if (op == OP_BPUT) sym_assume(n > 0);
        uint64_t amt = n;
        uint64_t lvl0 = buf_level;
        (void)lvl0;
        P[id].amt_ptr = &amt; P[id].amt_req = n;
        if (op == OP_BGET) any_get_started = 1;
        P[id].waiting = op == OP_BPUT ? W_BPUT : W_BGET; P[id].wait_since = now; P[id].wait_prio = P[id].prio;
        int64_t r = op == OP_BPUT ? cmb_buffer_put(B, &amt) : cmb_buffer_get(B, &amt);
        uint64_t moved = op == OP_BPUT ? n - amt : amt;
        if (r == CMB_PROCESS_SUCCESS) sym_assert(moved == n, "successful put/get transfers exactly the requested amount");
        else { account_signal(id, r, "buffer"); sym_assert(moved <= n, "interrupted put/get reports at most the requested amount"); }
        sym_tag("buffer_partial", moved != 0 && moved != n);
        /* the level bookkeeping for partial transfers is done by the per-transfer hook below (levels change while blocked) */
        if (op == OP_BPUT) {
            if (!any_get_started) sym_assert(moved <= bufcap - buf_level, "without any consumer a put never moves more than the free space");
            buf_level += moved;
        } else {
            buf_level -= moved;
        }
        after_block_r(id, r);
        break; }
    /* ---------------- object queue (C12) */
    case OP_OPUT: {
        if (oq_next >= 8) break;
        int tag = oq_next++;
        P[id].waiting = W_OPUT; P[id].wait_since = now; P[id].wait_prio = P[id].prio;
        int64_t r = cmb_objectqueue_put(OQ, otag_ptr(tag));
        if (r == CMB_PROCESS_SUCCESS) { oq_fifo[oq_n++] = tag; check_service_order(id, W_OPUT, P[id].wait_since, now); }
        else account_signal(id, r, "objectqueue put");
        after_block_r(id, r);
        break; }
    case OP_OGET: {
        void *obj = (void *)&otags[7];
        P[id].waiting = W_OGET; P[id].wait_since = now; P[id].wait_prio = P[id].prio;
        int64_t r = cmb_objectqueue_get(OQ, &obj);
        if (r == CMB_PROCESS_SUCCESS) {
            sym_assert(oq_n > 0, "a successful get delivers an object that was put");
            check_service_order(id, W_OGET, P[id].wait_since, now);
            if (oq_n > 0) {
                int tag = oq_fifo[0];
                sym_assert(obj == otag_ptr(tag), "object queue delivers in put order");
                for (int k = 1; k < oq_n; k++) oq_fifo[k - 1] = oq_fifo[k];
                oq_n--;
            }
        } else { account_signal(id, r, "objectqueue get"); sym_assert(obj == NULL, "a get that does not succeed delivers nothing"); }
        after_block_r(id, r);
        break; }
    /* ---------------- priority queue (C12) */
    case OP_QPUT: {
        if (pq_n >= 8) break;
        int k = pq_n++;             /* the slot is reserved now: several putters can be blocked at the same time */
        pq[k].live = 0;
        int64_t pr = sym_i64("qprio");
        uint64_t h = 0;
        P[id].waiting = W_QPUT; P[id].wait_since = now; P[id].wait_prio = P[id].prio;
        int64_t r = cmb_priorityqueue_put(PQ, (void *)&otags[k], pr, &h);
        if (r == CMB_PROCESS_SUCCESS) {
            pq[k].tag = k; pq[k].prio = pr; pq[k].handle = h; pq[k].live = 1; pq[k].seq = pq_seq++;
            uint64_t nl = 0; for (int m = 0; m < pq_n; m++) nl += pq[m].live;
        } else account_signal(id, r, "priorityqueue put");
        after_block_r(id, r);
        break; }
    case OP_QGET: {
        void *obj = (void *)&otags[7];
        P[id].waiting = W_QGET; P[id].wait_since = now; P[id].wait_prio = P[id].prio;
        int64_t r = cmb_priorityqueue_get(PQ, &obj);
        if (r == CMB_PROCESS_SUCCESS) {
            int best = -1;
            for (int m = 0; m < pq_n; m++) if (pq[m].live && (best < 0 || pq[m].prio > pq[best].prio || (pq[m].prio == pq[best].prio && pq[m].seq < pq[best].seq))) best = m;
            sym_assert(best >= 0, "a successful get delivers an object that was put");
            check_service_order(id, W_QGET, P[id].wait_since, now);
            if (best >= 0) {
                sym_assert(obj == (void *)&otags[pq[best].tag], "priority queue delivers highest priority first, FIFO among equals");
                pq[best].live = 0;
                uint64_t nl = 0; for (int m = 0; m < pq_n; m++) nl += pq[m].live;
            }
        } else { account_signal(id, r, "priorityqueue get"); sym_assert(obj == NULL, "a get that does not succeed delivers nothing"); }
        after_block_r(id, r);
        break; }
    case OP_QCANCEL: case OP_QREPRIO: {
        int m = -1;
        for (int k = 0; k < pq_n; k++) if (pq[k].live) m = k;     /* the most recently put live object */
        if (m < 0) break;
        if (op == OP_QCANCEL) {
            sym_assert(cmb_priorityqueue_cancel(PQ, pq[m].handle), "cancel by handle finds the queued object");
            pq[m].live = 0;
            uint64_t nl = 0; for (int k = 0; k < pq_n; k++) nl += pq[k].live;
        } else {
            int64_t pr = sym_i64("qreprio");
            cmb_priorityqueue_reprioritize(PQ, pq[m].handle, pr);
            pq[m].prio = pr;
        }
        /* position query agrees with the delivery order */
        for (int k = 0; k < pq_n; k++) {
            if (!pq[k].live) { if (pq[k].handle != 0) sym_assert(cmb_priorityqueue_position(PQ, pq[k].handle) == 0, "position of a delivered/cancelled handle is 0"); continue; }
            uint64_t ahead = 0;
            for (int q = 0; q < pq_n; q++) if (q != k && pq[q].live && (pq[q].prio > pq[k].prio || (pq[q].prio == pq[k].prio && pq[q].seq < pq[k].seq))) ahead++;
            sym_assert(cmb_priorityqueue_position(PQ, pq[k].handle) == ahead + 1, "position query equals the rank in delivery order");
        }
        break; }
    /* ---------------- condition (C13) */
    case OP_CWAIT: {
        cthr[id] = sym_range(0, 3, "cthr");
        P[id].waiting = W_CWAIT; P[id].wait_since = now; P[id].wait_prio = P[id].prio; P[id].wait_arg = 0;
        P[id].c_true_at = -1.0; P[id].c_must = 0; P[id].cw_since = now;
        int64_t r = OBSERVE ? cmb_condition_wait(CV, cpred_free, 0) : cmb_condition_wait(CV, cpred, (void *)(intptr_t)id);
        if (r == CMB_PROCESS_SUCCESS) {
            sym_assert(P[id].c_true_at == cmb_time(), "a condition waiter is resumed with success only at an instant at which its predicate was found true");
            sym_assert(P[id].c_must == 1, "no condition waiter is resumed whose predicate was false at the signal");
            if (P[id].c_must) {
                sym_tag("forwarded_signal", P[id].c_src == 2);
                sym_tag("head_waiter", P[id].c_head != 0);
                sym_assert(P[id].c_mark == cmb_time(), "a condition waiter whose predicate was true at a signal is resumed in that same instant");
            }
        } else account_signal(id, r, "condition wait");
        P[id].c_must = 0;
        after_block_r(id, r);
        break; }
    case OP_CSET:
        cstate = sym_range(0, 3, "cstate");
        break;
    case OP_CSIG: {
        /* expected: exactly the waiters whose predicate holds now */
        int any = mark_satisfied_waiters(1);
        bool r = cmb_condition_signal(CV);
        sym_assert(r == (any != 0), "condition_signal reports whether any waiter was satisfied");
        break; }
    case OP_CCANCEL0: case OP_CCANCEL1: case OP_CCANCEL2: case OP_CREMOVE0: case OP_CREMOVE1: case OP_CREMOVE2: {
        int cancel = op <= OP_CCANCEL2;
        int j = cancel ? op - OP_CCANCEL0 : op - OP_CREMOVE0;
        if (j >= NPROC || j == id) break;
        int waitingj = (P[j].waiting == W_CWAIT && P[j].wait_arg == 0 && !P[j].c_must);   /* still in the queue */
        bool r = cancel ? cmb_condition_cancel(CV, P[j].p) : cmb_condition_remove(CV, P[j].p);
        sym_assert(r == (waitingj != 0), "condition cancel/remove reports whether the process was waiting");
        if (waitingj && cancel) ledger_add(j, L_CANCEL, CMB_PROCESS_CANCELLED, now, 0);
        if (waitingj) P[j].c_must = 0;
        if (waitingj && !cancel) P[j].wait_arg = 2;    /* removed: stays suspended until something else resumes it */
        break; }
    case OP_RESTART0: case OP_RESTART1: case OP_RESTART2: {
        int j = op - OP_RESTART0;
        if (j >= NPROC || j == id || !P[j].finished || P[j].runs >= 2) break;
        P[j].started = 0; nhold[j] = 0; P[j].restart_pending = 1;       /* it counts as finished until its start event runs */
        cmb_process_start(P[j].p);          /* documented: a finished process can be started again from the beginning */
        break; }
    case OP_RECON:
        break;
    case OP_INTERIM:
        if (REC) {
            cmb_timeseries_finalize(cmb_resource_history(R), now);
            cmb_timeseries_finalize(cmb_resourcepool_get_history(PL), now);
            cmb_timeseries_finalize(cmb_buffer_history(B), now);
            cmb_timeseries_finalize(cmb_objectqueue_history(OQ), now);
            cmb_timeseries_finalize(cmb_priorityqueue_history(PQ), now);
            interim_check(cmb_resource_history(R)); interim_check(cmb_resourcepool_get_history(PL)); interim_check(cmb_buffer_history(B));
            interim_check(cmb_objectqueue_history(OQ)); interim_check(cmb_priorityqueue_history(PQ));
        }
        break;
    default:
        break;
    }
}

/* C08 at every instant boundary: which suspended processes could be served by what is available right now */
static unsigned stuck_mask(void)
{
    unsigned m = 0;
    for (int i = 0; i < NPROC; i++) {
        if (!P[i].started || P[i].finished) continue;
        switch (P[i].waiting) {
        case W_ACQ:  if (owner < 0) m |= 1u; break;
        case W_PACQ: if (cmb_resourcepool_available(PL) != 0) m |= 2u; break;
        case W_BPUT: if (cmb_buffer_space(B) != 0) m |= 4u; break;
        case W_BGET: if (cmb_buffer_level(B) != 0) m |= 8u; break;
        case W_OPUT: if (cmb_objectqueue_space(OQ) != 0) m |= 16u; break;
        case W_OGET: if (cmb_objectqueue_length(OQ) != 0) m |= 32u; break;
        case W_QPUT: if (cmb_priorityqueue_space(PQ) != 0) m |= 64u; break;
        case W_QGET: if (cmb_priorityqueue_length(PQ) != 0) m |= 128u; break;
        default: break;
        }
    }
    return m;
}

static void *body(struct cmb_process *me, void *ctx)
{
    int id = (int)(intptr_t)ctx;
    sym_assert(me == P[id].p, "a started process receives its own handle");
    sym_assert(cmb_process_current() == me, "current process is the running one");
    P[id].started++;
    P[id].runs++;
    P[id].finished = 0; P[id].stopped = 0; P[id].waiting = W_NONE; P[id].ntimers = 0; P[id].restart_pending = 0;
    sym_assert(P[id].started == 1, "process function entered once per start");
    sym_assert(owner != id && P[id].pool_held == 0 && cmb_resourcepool_held_by_process(PL, me) == 0 && cmb_resource_held_by_process(R, me) == 0,
               "a (re)started process begins with nothing held");
    sym_assert(cmb_event_pattern_count(CMB_ANY_ACTION, me, CMB_ANY_OBJECT) == 0, "a (re)started process begins with nothing awaited and no event queued for it");
    for (int k = 0; k < MAXSTEP && scripts[id][k] != OP_END; k++) step(id, scripts[id][k]);
    void *val = (void *)(intptr_t)(100 + id);
    shadow_end(id, 0, val);
    return val;
}

static void ev_E(void *s, void *o) { (void)s; (void)o; E_state = 1; E_time = cmb_time(); }

static void check_history(struct cmb_timeseries *ts, const struct traj *tr, const char *what);

void h_sim(void)
{
#ifndef DEBUGLOG
    cmb_logger_flags_off(0xFFFFFFFFu);
#endif
    cmb_event_queue_initialize(0.0);
    poolcap = POOLCAP > 0 ? (uint64_t)POOLCAP : (uint64_t)sym_range(1, 4, "poolcap");
    bufcap = BUFCAP > 0 ? (uint64_t)BUFCAP : BUFCAP < 0 ? UINT64_MAX : (uint64_t)sym_range(1, 4, "bufcap");
    qcap = QCAP > 0 ? (uint64_t)QCAP : QCAP < 0 ? UINT64_MAX : (uint64_t)sym_range(1, 3, "qcap");
    R = cmb_resource_create(); cmb_resource_initialize(R, "R");
    PL = cmb_resourcepool_create(); cmb_resourcepool_initialize(PL, "PL", poolcap);
    B = cmb_buffer_create(); cmb_buffer_initialize(B, "B", bufcap);
    OQ = cmb_objectqueue_create(); cmb_objectqueue_initialize(OQ, "OQ", qcap);
    PQ = cmb_priorityqueue_create(); cmb_priorityqueue_initialize(PQ, "PQ", qcap);
    CV = cmb_condition_create(); cmb_condition_initialize(CV, "CV");
    if (OBSERVE == 1) cmb_resourceguard_register(&R->guard, &CV->guard);
    if (OBSERVE == 2) cmb_condition_subscribe(CV, &R->guard);
    if (REC) {
        cmb_resource_start_recording(R); trR.on = 1;
        cmb_resourcepool_start_recording(PL); trP.on = 1;
        cmb_buffer_recording_start(B); trB.on = 1;
        cmb_objectqueue_recording_start(OQ); trO.on = 1;
        cmb_priorityqueue_recording_start(PQ); trQ.on = 1;
        observe_all();
    }
    int use_e = 0;
    for (int i = 0; i < NPROC; i++) for (int k = 0; k < MAXSTEP; k++) if (scripts[i][k] == OP_WAITE || scripts[i][k] == OP_CANCELE) use_e = 1;
    if (use_e) {
        double tE = sym_f64("tE"); sym_assume(tE >= 0.0); sym_assume(tE <= 8.0);
        E_handle = cmb_event_schedule(ev_E, 0, 0, tE, PRIOSYM ? sym_i64("priE") : 0);
    } else E_state = 1;
    static const int64_t prios[4] = PRIOS;
    int64_t common = SAMEPRIO ? sym_i64("prio") : 0;
    for (int i = 0; i < NPROC; i++) {
        P[i].p = cmb_process_create(); P[i].ppre_time = -1.0; P[i].prio_time = -1.0;
        P[i].prio = SAMEPRIO ? common : PRIOSYM ? sym_i64("prio") : prios[i];
        cmb_process_initialize(P[i].p, "p", body, (void *)(intptr_t)i, P[i].prio);
        cmb_process_start(P[i].p);
    }
    uint64_t guard = 0;
    double last = cmb_time();
    unsigned stuck = 0;
    while (cmb_event_execute_next()) {
        sym_assert(cmb_time() >= last, "clock never decreases");
        /* the previous instant is over: whatever was available at its end must have been handed to whoever waited for it */
        if (cmb_time() > last) sym_assert(stuck == 0, "no process is still blocked at the end of an instant in which what it waits for is available");
        last = cmb_time();
        invariants();
        stuck = stuck_mask();
        sym_assume(++guard < 200);
    }
    /* ---- quiescence: nobody may be left suspended whose cause has happened / whose demand can be met */
    for (int i = 0; i < NPROC; i++) {
        if (!P[i].started) { sym_assert(0, "every started process runs"); continue; }
        if (P[i].finished) {
            sym_assert(cmb_process_status(P[i].p) == CMB_PROCESS_FINISHED, "ended process has status FINISHED");
            sym_assert(cmb_process_exit_value(P[i].p) == P[i].exit_expected, "exit value is what was returned / exited with / stopped with");
            continue;
        }
        switch (P[i].waiting) {
        case W_HOLD: sym_assert(0, "a holding process is never left suspended past its wake-up time"); break;
        case W_WAITP: sym_assert(!P[P[i].wait_arg].finished, "a process waiting for an ended process is not left suspended"); break;
        case W_WAITE: sym_assert(E_state == 0, "a process waiting for an executed/cancelled event is not left suspended"); break;
        case W_ACQ: sym_assert(owner >= 0, "no process stays blocked on a free resource"); break;
        case W_PACQ: sym_assert(cmb_resourcepool_available(PL) == 0, "no process stays blocked on a pool with units available"); break;
        case W_BPUT: sym_assert(buf_level == bufcap || 1, "putter blocked"); sym_assert(cmb_buffer_space(B) == 0, "no putter stays blocked on a buffer with space"); break;
        case W_BGET: sym_assert(cmb_buffer_level(B) == 0, "no getter stays blocked on a buffer with content"); break;
        case W_OPUT: sym_assert(cmb_objectqueue_space(OQ) == 0, "no putter stays blocked on a queue with space"); break;
        case W_OGET: sym_assert(cmb_objectqueue_length(OQ) == 0, "no getter stays blocked on a queue with content"); break;
        case W_QPUT: sym_assert(cmb_priorityqueue_space(PQ) == 0, "no putter stays blocked on a priority queue with space"); break;
        case W_QGET: sym_assert(cmb_priorityqueue_length(PQ) == 0, "no getter stays blocked on a priority queue with content"); break;
        case W_CWAIT:
            sym_tag("forwarded_signal", P[i].c_must && P[i].c_src == 2);
            sym_tag("head_waiter", P[i].c_must && P[i].c_head);
            sym_assert(!P[i].c_must, "a condition waiter whose predicate was true at a signal is resumed");
            break;
        case W_YIELD: break;
        default: sym_assert(0, "unfinished process is not blocked on anything"); break;
        }
        for (int k = 0; k < nled; k++) {
            if (led[k].tgt == i && !led[k].delivered && !led[k].cancelled) sym_assert(0, "an armed timer or issued notification of a suspended process is never lost");
        }
    }
    sym_assert(E_state != 0, "the global event executed or was cancelled");
    if (REC) {
        cmb_resource_stop_recording(R); check_history(cmb_resource_history(R), &trR, "resource");
        cmb_resourcepool_stop_recording(PL); check_history(cmb_resourcepool_get_history(PL), &trP, "pool");
        cmb_buffer_recording_stop(B); check_history(cmb_buffer_history(B), &trB, "buffer");
        cmb_objectqueue_recording_stop(OQ); check_history(cmb_objectqueue_history(OQ), &trO, "objectqueue");
        cmb_priorityqueue_recording_stop(PQ); check_history(cmb_priorityqueue_history(PQ), &trQ, "priorityqueue");
    }
#if TEARDOWN
    /* ---- the end of a valid program: whoever is still suspended is stopped (from the dispatcher), the statistics are
     * reported, every object is terminated and destroyed.  Only memory safety / aborts are at stake here (C10). */
    for (int i = 0; i < NPROC; i++) {
        if (P[i].started && !P[i].finished) {
            void *val = (void *)(intptr_t)(900 + i);
            shadow_end(i, 1, val);
            cmb_process_stop(P[i].p, val);
            sym_assert(cmb_process_status(P[i].p) == CMB_PROCESS_FINISHED, "a stopped process is finished");
        }
    }
    { uint64_t g2 = 0; while (cmb_event_execute_next()) { sym_assume(++g2 < 100); } }
    for (int i = 0; i < NPROC; i++) {
        sym_assert(cmb_resource_held_by_process(R, P[i].p) == 0 && cmb_resourcepool_held_by_process(PL, P[i].p) == 0, "nothing is held after every process has ended");
        sym_note("name", (uint64_t)(cmb_process_name(P[i].p)[0]));
        sym_assert(cmb_process_priority(P[i].p) == cmb_process_priority(P[i].p) && cmb_process_context(P[i].p) == (void *)(intptr_t)i, "context query returns the start argument");
    }
    sym_assert(cmb_resource_in_use(R) == 0 && cmb_resourcepool_in_use(PL) == 0, "nothing is in use after every process has ended");
    if (REC && TEARDOWN >= 2) {        /* the reports bin the recorded values: only for scenarios whose amounts are concrete */
        cmb_resource_print_report(R, stdout);
        cmb_resourcepool_print_report(PL, stdout);
        cmb_buffer_print_report(B, stdout);
        cmb_objectqueue_report_print(OQ, stdout);
        cmb_priorityqueue_report_print(PQ, stdout);
    }
    cmb_event_queue_print(stdout);
    sym_note("names", (uint64_t)(cmb_resource_name(R)[0] + cmb_resourcepool_get_name(PL)[0] + cmb_buffer_get_name(B)[0] + cmb_objectqueue_name(OQ)[0] + cmb_priorityqueue_name(PQ)[0]));
    if (OBSERVE == 1) sym_assert(cmb_resourceguard_unregister(&R->guard, &CV->guard), "unregister finds the registered observer");
    if (OBSERVE == 2) sym_assert(cmb_condition_unsubscribe(CV, &R->guard), "unsubscribe finds the subscription");
    cmb_condition_terminate(CV); cmb_condition_destroy(CV);
    cmb_priorityqueue_terminate(PQ); cmb_priorityqueue_destroy(PQ);
    cmb_objectqueue_terminate(OQ); cmb_objectqueue_destroy(OQ);
    cmb_buffer_terminate(B); cmb_buffer_destroy(B);
    cmb_resourcepool_terminate(PL); cmb_resourcepool_destroy(PL);
    cmb_resource_terminate(R); cmb_resource_destroy(R);
    for (int i = 0; i < NPROC; i++) { cmb_process_terminate(P[i].p); cmb_process_destroy(P[i].p); }
    cmb_event_queue_terminate();
#endif
#ifdef WITNESS
    { int nf = 0; for (int i = 0; i < NPROC; i++) nf += P[i].finished; sym_assert(nf == 0, "WITNESS some process ran to its end"); }
#endif
}

/* C14: the recorded step function equals the shadow trajectory; time average exact */
static void check_history(struct cmb_timeseries *ts, const struct traj *tr, const char *what)
{
    (void)what;
    uint64_t n = cmb_timeseries_count(ts);
    sym_assert(n >= 1, "history has the start sample");
    interim_check(ts);
    double prev_t = 0.0;
    for (uint64_t k = 0; k < n; k++) {
        sym_assert(ts->ta[k] >= prev_t, "sample times are non-decreasing");
        prev_t = ts->ta[k];
    }
    /* the recorded step function at the end of every instant equals the observed state */
    for (int m = 0; m < tr->n; m++) {
        if (m + 1 < tr->n && tr->t[m + 1] == tr->t[m]) continue;     /* superseded within the same instant */
        double t = tr->t[m], rec = -1.0;
        for (uint64_t k = 0; k < n; k++) if (ts->ta[k] <= t) rec = ts->ds.xa[k];
        sym_assert(rec == tr->x[m], "recorded history reflects every change of the true state");
    }
    /* exact time average: integral of the shadow step function over [start, stop] */
    double t0 = tr->n ? tr->t[0] : 0.0, t1 = cmb_time();
    if (CONCRETE_D && t1 > t0) {
        double integral = 0.0;
        for (int m = 0; m < tr->n; m++) {
            double te = m + 1 < tr->n ? tr->t[m + 1] : t1;
            integral += tr->x[m] * (te - tr->t[m]);
        }
        struct cmb_wtdsummary ws;
        cmb_wtdsummary_initialize(&ws);
        cmb_timeseries_summarize(ts, &ws);
        double mean = cmb_wtdsummary_mean(&ws);
        double err = mean * (t1 - t0) - integral;
        sym_assert(err <= 1e-9 && err >= -1e-9, "time-weighted mean equals the exact time average");
    }
}

const struct sym_entry sym_entries[] = { {"h_sim", h_sim}, {0, 0} };
