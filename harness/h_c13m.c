/* h_c13m.c - C13 with many waiters: NW processes (priorities symbolic or fixed) wait on one condition, each with its own
 * predicate flag; a signaller makes an arbitrary subset of the predicates true and signals once.  Exactly the waiters
 * whose predicate is true are resumed, in that instant, with SUCCESS; the others stay queued and are resumed by a later
 * signal.  The waiting list is a heap: with six or more waiters, removals in the middle move entries between subtrees. */
#include <stddef.h>
#include "sym.h"
#include "cmb_event.h"
#include "cmb_logger.h"
#include "cmb_process.h"
#include "cmb_condition.h"

#ifndef NW
#define NW 6
#endif
#ifndef STAGGER
#define STAGGER 0
#endif
#ifndef PRIOSYM
#define PRIOSYM 0
#endif
#ifndef PRIOSET
#define PRIOSET {10, 5, 9, 4, 3, 8, 7, 6, 2}
#endif
static struct cmb_condition *cv;
static int flag[12], resumed[12], resumed_round[12];
static double resumed_at[12];
static int round_no;

static bool pred(const struct cmb_condition *c, const struct cmb_process *pp, const void *ctx)
{
    (void)c; (void)pp;
    return flag[(intptr_t)ctx] != 0;
}

static void *waiter(struct cmb_process *me, void *ctx)
{
    (void)me;
    intptr_t i = (intptr_t)ctx;
#if STAGGER
    (void)cmb_process_hold(0.0625 * (double)(i + 1));      /* join the condition in index order, whatever the priorities */
#endif
    int64_t r = cmb_condition_wait(cv, pred, ctx);
    sym_assert(r == CMB_PROCESS_SUCCESS, "a condition waiter is resumed with SUCCESS");
    sym_assert(flag[i], "a resumed waiter's predicate was true at the signal");
    resumed[i]++; resumed_at[i] = cmb_time(); resumed_round[i] = round_no;
    return 0;
}

static void *signaller(struct cmb_process *me, void *ctx)
{
    (void)me; (void)ctx;
    (void)cmb_process_hold(1.0);
    /* round 1: an arbitrary subset becomes true */
    int want[12];
    for (int i = 0; i < NW; i++) { flag[i] = (int)sym_choice(2, "true1"); want[i] = flag[i]; }
    round_no = 1;
    cmb_condition_signal(cv);
    (void)cmb_process_hold(1.0);
    for (int i = 0; i < NW; i++) {
        sym_assert(resumed[i] == (want[i] ? 1 : 0), "a signal resumes exactly the waiters whose predicate is true");
        if (want[i]) sym_assert(resumed_at[i] == 1.0 && resumed_round[i] == 1, "in the instant of that signal");
    }
    /* round 2: everybody else */
    for (int i = 0; i < NW; i++) flag[i] = 1;
    round_no = 2;
    cmb_condition_signal(cv);
    (void)cmb_process_hold(1.0);
    for (int i = 0; i < NW; i++) sym_assert(resumed[i] == 1, "every waiter is resumed exactly once");
    return 0;
}

void h_manycond(void)
{
    cmb_logger_flags_off(0xFFFFFFFFu);
    cmb_event_queue_initialize(0.0);
    cv = cmb_condition_create(); cmb_condition_initialize(cv, "cv");
    static const int64_t pset[12] = PRIOSET;
    struct cmb_process *w[12];
    for (intptr_t i = 0; i < NW; i++) {
        w[i] = cmb_process_create();
        int64_t pr = pset[i];
        if (PRIOSYM) { pr = sym_range(0, 3, "prio"); }
        cmb_process_initialize(w[i], "w", waiter, (void *)i, pr);
        cmb_process_start(w[i]);
    }
    struct cmb_process *s = cmb_process_create();
    cmb_process_initialize(s, "s", signaller, 0, 0);
    cmb_process_start(s);
    cmb_event_queue_execute();
    int n = 0; for (int i = 0; i < NW; i++) n += resumed[i];
    sym_assert(n == NW, "all waiters ended");
#ifdef WITNESS
    sym_assert(n == 0, "WITNESS waiters were resumed");
#endif
    for (int i = 0; i < NW; i++) { cmb_process_terminate(w[i]); cmb_process_destroy(w[i]); }
    cmb_process_terminate(s); cmb_process_destroy(s);
    cmb_condition_terminate(cv); cmb_condition_destroy(cv);
    cmb_event_queue_terminate();
}
const struct sym_entry sym_entries[] = { {"h_manycond", h_manycond}, {0, 0} };
