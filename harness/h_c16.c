/* h_c16.c - C16 (support part): every sampler returns values inside the support of its distribution for every
 * admissible parameter set and EVERY possible raw draw: cmb_random_sfc64 is replaced by a fresh symbolic 64-bit
 * value per call (engine option sym_draws), which over-approximates the stream soundly for a support claim. */
#include <stddef.h>
#include <math.h>
#include "sym.h"
#include "cmb_random.h"

#ifndef NPS
#define NPS 1
#endif
#ifndef NN
#define NN 2
#endif
#ifdef SYM_NATIVE
#define TOL 0.00095
#else
#define TOL 0.0009
#endif
static double symd(const char *n, double lo, double hi) { double v = sym_f64(n); sym_assume(v >= lo && v <= hi); return v; }

void e_uniform(void)
{
    double a = symd("min", -1000.0, 1000.0), b = symd("max", -1000.0, 1000.0);
    sym_assume(a < b);
    double u = cmb_random();
    sym_assert(u >= 0.0 && u < 1.0, "cmb_random lies in [0, 1)");
    double r = cmb_random_uniform(a, b);
    sym_assert(r >= a && r <= b, "uniform variate lies within [min, max]");
    unsigned f = cmb_random_bernoulli(symd("p", 0.0, 1.0));
    sym_assert(f == 0 || f == 1, "bernoulli is 0 or 1");
    int c = cmb_random_flip();
    sym_assert(c == 0 || c == 1, "flip is 0 or 1");
#ifdef WITNESS
    sym_assert(r < a, "WITNESS reachable");
#endif
}

void e_triangular(void)
{
    double a = symd("min", -100.0, 100.0), m = symd("mode", -100.0, 100.0), b = symd("max", -100.0, 100.0);
    sym_assume(a <= m && m <= b && a < b);
    double r = cmb_random_triangular(a, m, b);
    sym_assert(r >= a && r <= b, "triangular variate lies within [min, max]");
}

void e_dice(void)
{
    long a = (long)sym_range(-1000000, 1000000, "a"), b = (long)sym_range(-1000000, 1000000, "b");
    sym_assume(a < b);
    long r = cmb_random_dice(a, b);
    sym_assert(r >= a && r <= b, "dice result lies within [a, b]");
}

void e_loaded_dice(void)
{
    double pa[4]; double sum = 0.0;
    for (int i = 0; i < NN; i++) { pa[i] = symd("p", 0.0, 1.0); sum += pa[i]; }
    sym_assume(sum - 1.0 <= TOL && 1.0 - sum <= TOL);        /* sums to one within the accepted tolerance (1e-3) */
    sym_tag("sum_below_one", sum < 1.0);
    unsigned r = cmb_random_loaded_dice(NN, pa);
    sym_assert(r < NN, "loaded dice returns a valid index");
#ifdef WITNESS
    sym_assert(r != 0, "WITNESS reachable");
#endif
}

void e_alias(void)
{
    double pa[4]; double sum = 0.0;
    for (int i = 0; i < NN; i++) { pa[i] = symd("p", 0.0, 1.0); sum += pa[i]; }
    sym_assume(sum - 1.0 <= TOL && 1.0 - sum <= TOL);
    struct cmb_random_alias *ap = cmb_random_alias_create(NN, pa);
    for (unsigned i = 0; i < NN; i++) sym_assert(ap->alias[i] < NN, "alias table entries are valid indices");
    unsigned r = cmb_random_alias_sample(ap);
    sym_assert(r < NN, "alias sampling returns a valid index");
    cmb_random_alias_destroy(ap);
}

void e_pareto(void)
{
    double shape = symd("shape", 0.25, 8.0), mode = symd("mode", 0.001, 100.0);
    double r = cmb_random_pareto(shape, mode);
    sym_assert(r >= mode, "pareto variate is at least the mode");
}

/* counts: concrete boundary parameters, every raw draw */
void e_geometric(void)
{
    static const double ps[2] = { 1.0, 0.5 };
    double p = ps[sym_choice(NPS, "psel")];
    sym_tag("p_is_one", p == 1.0);
    unsigned g = cmb_random_geometric(p);
    sym_assert(g >= 1, "geometric variate is at least 1");
}
void e_negbinomial(void)
{
    double p = 1.0;
    sym_tag("p_is_one", p == 1.0);
    unsigned k = cmb_random_negative_binomial(1, p);
    sym_assert(k < 0x80000000u, "negative binomial count does not wrap around");
}
void e_binomial(void)
{
    unsigned n = (unsigned)sym_range(1, 3, "n");
    unsigned k = cmb_random_binomial(n, symd("p", 0.001, 1.0));
    sym_assert(k <= n, "binomial count is at most n");
}
void e_exponential(void)
{
    double r = cmb_random_std_exponential();
    sym_assert(r >= 0.0, "exponential variate is non-negative");
}

const struct sym_entry sym_entries[] = { {"e_uniform", e_uniform}, {"e_triangular", e_triangular}, {"e_dice", e_dice}, {"e_loaded_dice", e_loaded_dice},
    {"e_alias", e_alias}, {"e_pareto", e_pareto}, {"e_geometric", e_geometric}, {"e_negbinomial", e_negbinomial}, {"e_binomial", e_binomial}, {"e_exponential", e_exponential}, {0, 0} };
