/* h_c16.c - C16 (support part): every sampler returns values inside the support of its distribution for every
 * admissible parameter set and EVERY possible raw draw: cmb_random_sfc64 is replaced by a fresh symbolic 64-bit
 * value per call (engine option sym_draws), which over-approximates the stream soundly for a support claim. */
#include <stddef.h>
#include <math.h>
#include "sym.h"
#include "cmb_random.h"

#ifndef NPS
#define NPS 1
#endif
#ifndef NN
#define NN 2
#endif
#ifdef SYM_NATIVE
#define TOL 0.00095
#else
#define TOL 0.0009
#endif
static double symd(const char *n, double lo, double hi) { double v = sym_f64(n); sym_assume(v >= lo && v <= hi); return v; }

void e_uniform(void)
{
    double a = symd("min", -1000.0, 1000.0), b = symd("max", -1000.0, 1000.0);
    sym_assume(a < b);
    double u = cmb_random();
    sym_assert(u >= 0.0 && u < 1.0, "cmb_random lies in [0, 1)");
    double r = cmb_random_uniform(a, b);
    sym_assert(r >= a && r <= b, "uniform variate lies within [min, max]");
    unsigned f = cmb_random_bernoulli(symd("p", 0.0, 1.0));
    sym_assert(f == 0 || f == 1, "bernoulli is 0 or 1");
    int c = cmb_random_flip();
    sym_assert(c == 0 || c == 1, "flip is 0 or 1");
#ifdef WITNESS
    sym_assert(r < a, "WITNESS reachable");
#endif
}

void e_triangular(void)
{
    double a = symd("min", -100.0, 100.0), m = symd("mode", -100.0, 100.0), b = symd("max", -100.0, 100.0);
    sym_assume(a <= m && m <= b && a < b);
    double r = cmb_random_triangular(a, m, b);
    sym_assert(r >= a && r <= b, "triangular variate lies within [min, max]");
}

void e_dice(void)
{
    long a = (long)sym_range(-1000000, 1000000, "a"), b = (long)sym_range(-1000000, 1000000, "b");
    sym_assume(a < b);
    long r = cmb_random_dice(a, b);
    sym_assert(r >= a && r <= b, "dice result lies within [a, b]");
}

void e_loaded_dice(void)
{
    double pa[4]; double sum = 0.0;
    for (int i = 0; i < NN; i++) { pa[i] = symd("p", 0.0, 1.0); sum += pa[i]; }
    sym_assume(sum - 1.0 <= TOL && 1.0 - sum <= TOL);        /* sums to one within the accepted tolerance (1e-3) */
    sym_tag("sum_below_one", sum < 1.0);
    unsigned r = cmb_random_loaded_dice(NN, pa);
    sym_assert(r < NN, "loaded dice returns a valid index");
#ifdef WITNESS
    sym_assert(r != 0, "WITNESS reachable");
#endif
}

void e_alias(void)
{
    double pa[4]; double sum = 0.0;
    for (int i = 0; i < NN; i++) { pa[i] = symd("p", 0.0, 1.0); sum += pa[i]; }
    sym_assume(sum - 1.0 <= TOL && 1.0 - sum <= TOL);
    struct cmb_random_alias *ap = cmb_random_alias_create(NN, pa);
    for (unsigned i = 0; i < NN; i++) sym_assert(ap->alias[i] < NN, "alias table entries are valid indices");
    unsigned r = cmb_random_alias_sample(ap);
    sym_assert(r < NN, "alias sampling returns a valid index");
    cmb_random_alias_destroy(ap);
}

void e_pareto(void)
{
    double shape = symd("shape", 0.25, 8.0), mode = symd("mode", 0.001, 100.0);
    double r = cmb_random_pareto(shape, mode);
    sym_assert(r >= mode, "pareto variate is at least the mode");
}

/* counts: concrete boundary parameters, every raw draw */
void e_geometric(void)
{
    static const double ps[2] = { 1.0, 0.5 };
    double p = ps[sym_choice(NPS, "psel")];
    sym_tag("p_is_one", p == 1.0);
    unsigned g = cmb_random_geometric(p);
    sym_assert(g >= 1, "geometric variate is at least 1");
}
void e_negbinomial(void)
{
    double p = 1.0;
    sym_tag("p_is_one", p == 1.0);
    unsigned k = cmb_random_negative_binomial(1, p);
    sym_assert(k < 0x80000000u, "negative binomial count does not wrap around");
}
void e_binomial(void)
{
    unsigned n = (unsigned)sym_range(1, 3, "n");
    unsigned k = cmb_random_binomial(n, symd("p", 0.001, 1.0));
    sym_assert(k <= n, "binomial count is at most n");
}
void e_exponential(void)
{
    double r = cmb_random_std_exponential();
    sym_assert(r >= 0.0, "exponential variate is non-negative");
}


/* --- samplers built on the base uniform variate, the ziggurat hot paths and libm: in the engine NaN/infinity show up
 * as 'fp' reports (log of 0, division by 0, sqrt of a negative value); natively the finiteness assertion fails */
#define FINITE(r) ((r) == (r) && (r) - (r) == 0.0)
#ifndef NSHAPE
#define NSHAPE 4             /* with SHAPE_SYM=0: how many of the concrete shape values are used */
#endif
#ifndef SHAPE_SYM
#define SHAPE_SYM 1          /* 0: the shape parameters are picked from a few concrete values (keeps the rejection test univariate) */
#endif
static double shape_param(const char *n, double lo, double hi)
{
#if SHAPE_SYM
    return symd(n, lo, hi);
#else
    static const double vals[4] = { 0.125, 2.5, 0.5, 1.0 };
    (void)lo; (void)hi;
    return vals[sym_choice(NSHAPE, n)];
#endif
}
void e_logistic(void)
{
    double m = symd("m", -100.0, 100.0), s = symd("s", 0.001, 100.0);
    double r = cmb_random_logistic(m, s);
    sym_assert(FINITE(r), "logistic variate is finite");
}
void e_std_gamma(void)
{
    double shape = shape_param("shape", 0.01, 4.0);
    sym_tag("shape_below_one", shape < 1.0);
    double r = cmb_random_std_gamma(shape);
    sym_assert(FINITE(r) && r >= 0.0, "gamma variate is non-negative and finite");
}
void e_gamma(void)
{
    double shape = shape_param("shape", 0.01, 4.0), scale = symd("scale", 0.001, 100.0);
    sym_tag("shape_below_one", shape < 1.0);
    double r = cmb_random_gamma(shape, scale);
    sym_assert(FINITE(r) && r >= 0.0, "gamma variate is non-negative and finite");
}
void e_beta(void)
{
    double a = shape_param("a", 0.01, 4.0), b = shape_param("b", 0.01, 4.0), lo = symd("min", -100.0, 100.0), hi = symd("max", -100.0, 100.0);
    sym_assume(lo < hi);
    sym_tag("shape_below_one", a < 1.0 || b < 1.0);
    double r = cmb_random_beta(a, b, lo, hi);
    sym_assert(FINITE(r) && r >= lo && r <= hi, "beta variate lies within [min, max]");
}
void e_pert(void)
{
#if SHAPE_SYM
    double lo = symd("min", -100.0, 100.0), mode = symd("mode", -100.0, 100.0), hi = symd("max", -100.0, 100.0);
    sym_assume(lo < mode && mode < hi);
#else
    /* concrete triples (the beta shapes 1 + 4 (mode - min) / (max - min) are then concrete): symmetric, mode near either end */
    static const double tri[3][3] = { { 0.0, 5.0, 10.0 }, { -5.0, -4.875, 3.0 }, { 1.0, 8.75, 9.0 } };
    uint64_t t = sym_choice(3, "triple");
    double lo = tri[t][0], mode = tri[t][1], hi = tri[t][2];
#endif
    double r = cmb_random_PERT(lo, mode, hi);
    sym_assert(FINITE(r) && r >= lo && r <= hi, "PERT variate lies within [min, max]");
}
void e_chisq_f_t(void)
{
    double k = shape_param("k", 0.02, 6.0);
    sym_tag("shape_below_one", k < 2.0);
#ifdef WHICH
    uint64_t which = WHICH;
#else
    uint64_t which = sym_choice(3, "which");
#endif
    if (which == 0) {
        double r = cmb_random_chisquared(k);
        sym_assert(FINITE(r) && r >= 0.0, "chi-squared variate is non-negative and finite");
    } else if (which == 1) {
        double r = cmb_random_F_dist(k, 3.0);
        sym_assert(FINITE(r) && r >= 0.0, "F variate is non-negative and finite");
    } else {
        double tm = symd("m", -10.0, 10.0), ts = symd("s", 0.01, 10.0);
        double r = cmb_random_t_dist(tm, ts, k);
        sym_assert(FINITE(r), "t variate is finite");
    }
}
void e_exp_family(void)
{
    double m = symd("mean", 0.001, 100.0);
    uint64_t which = sym_choice(5, "which");
    if (which == 0) {
        double r = cmb_random_exponential(m);
        sym_assert(FINITE(r) && r >= 0.0, "exponential variate is non-negative and finite");
    } else if (which == 1) {
        double r = cmb_random_erlang((unsigned)sym_range(1, 3, "k"), m);
        sym_assert(FINITE(r) && r >= 0.0, "Erlang variate is non-negative and finite");
    } else if (which == 2) {
        double ma[2] = { m, symd("mean2", 0.001, 100.0) };
        double r = cmb_random_hypoexponential(2, ma);
        sym_assert(FINITE(r) && r >= 0.0, "hypoexponential variate is non-negative and finite");
    } else if (which == 3) {
        double ma[2] = { m, symd("mean2", 0.001, 100.0) }; double pa[2];
        pa[0] = symd("p", 0.0, 1.0); pa[1] = symd("p", 0.0, 1.0);
        sym_assume(pa[0] + pa[1] - 1.0 <= TOL && 1.0 - pa[0] - pa[1] <= TOL);
        double r = cmb_random_hyperexponential(2, ma, pa);
        sym_assert(FINITE(r) && r >= 0.0, "hyperexponential variate is non-negative and finite");
    } else {
        double wshape = symd("shape", 0.1, 8.0);
        double r = cmb_random_weibull(wshape, m);
        sym_assert(FINITE(r) && r >= 0.0, "Weibull variate is non-negative and finite");
    }
}
void e_normal_family(void)
{
    double m = symd("m", -100.0, 100.0), s = symd("s", 0.001, 100.0);
    uint64_t which = sym_choice(4, "which");
    if (which == 0) {
        double r = cmb_random_normal(m, s);
        sym_assert(FINITE(r), "normal variate is finite");
    } else if (which == 1) {
        double r = cmb_random_lognormal(m, s);
        sym_assert(r >= 0.0, "lognormal variate is non-negative");
    } else if (which == 2) {
        double r = cmb_random_rayleigh(s);
        sym_assert(FINITE(r) && r >= 0.0, "Rayleigh variate is non-negative and finite");
    } else {
        double r = cmb_random_cauchy(m, s);
        sym_assert(FINITE(r), "Cauchy variate is finite");
    }
}
/* the fall-back (not-hot) paths of the two ziggurat samplers, entered directly with an arbitrary candidate whose layer
 * index lies above the hot range: alias sampling of the overhang, table look-ups for every index byte, integer
 * reflections, the tail iteration */
extern double cmi_random_exp_not_hot(uint64_t u_cand_x);
extern double cmi_random_nor_not_hot(int64_t i_cand_x);
extern const uint8_t cmi_random_exp_zig_max, cmi_random_nor_zig_max;
void e_exp_nothot(void)
{
    uint64_t u = sym_u64("cand");
    sym_assume((u & 0xff) > cmi_random_exp_zig_max);
    double r = cmi_random_exp_not_hot(u);
    sym_assert(FINITE(r) && r >= 0.0, "exponential variate (fall-back path) is non-negative and finite");
}
void e_nor_nothot(void)
{
    uint64_t u = sym_u64("cand");
    sym_assume((u & 0xff) > cmi_random_nor_zig_max);
    double r = cmi_random_nor_not_hot((int64_t)u);
    sym_assert(FINITE(r), "normal variate (fall-back path) is finite");
}

void e_poisson(void)
{
    double rate = symd("rate", 0.01, 3.0);
    unsigned k = cmb_random_poisson(rate);
    sym_assert(k < 0x80000000u, "Poisson count does not wrap around");
}

const struct sym_entry sym_entries[] = { {"e_uniform", e_uniform}, {"e_triangular", e_triangular}, {"e_dice", e_dice}, {"e_loaded_dice", e_loaded_dice},
    {"e_alias", e_alias}, {"e_pareto", e_pareto}, {"e_geometric", e_geometric}, {"e_negbinomial", e_negbinomial}, {"e_binomial", e_binomial}, {"e_exponential", e_exponential},
    {"e_logistic", e_logistic}, {"e_std_gamma", e_std_gamma}, {"e_gamma", e_gamma}, {"e_beta", e_beta}, {"e_pert", e_pert}, {"e_chisq_f_t", e_chisq_f_t},
    {"e_exp_family", e_exp_family}, {"e_normal_family", e_normal_family}, {"e_poisson", e_poisson}, {"e_exp_nothot", e_exp_nothot}, {"e_nor_nothot", e_nor_nothot}, {0, 0} };
