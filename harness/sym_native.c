/* sym_native.c - replay runtime: feeds the values of a solver model back into the harness,
 * running against a native (gcc + nasm) build of the tree.
 * Input file ($SYM_REPLAY): one line per sym_* value request, in call order:
 *     i <name> <decimal uint64>      or      f <name> <hex double bits>
 * Output on stdout: NOTE/ASSERT-FAIL/ASSUME-FAIL/COVER/END lines that the engine compares. */
#define _GNU_SOURCE
#include <stdio.h>
#include <stdlib.h>
#include <string.h>
#include <inttypes.h>
#include <dlfcn.h>
#include "sym.h"

static FILE *in;
static int nfail;

static void open_in(void)
{
    if (in == NULL) {
        const char *p = getenv("SYM_REPLAY");
        if (p == NULL || (in = fopen(p, "r")) == NULL) {
            printf("REPLAY-ERROR no input file\n");
            fflush(stdout);
            _exit(4);
        }
        setvbuf(stdout, NULL, _IOLBF, 0);
    }
}

static uint64_t next_val(char kind, const char *name)
{
    open_in();
    char k;
    char nm[256];
    uint64_t v;
    if (fscanf(in, " %c %255s %" SCNu64, &k, nm, &v) != 3) {
        /* the native run asks for more inputs than the symbolic path had: diverged */
        printf("REPLAY-DIVERGED input underrun at %s\n", name);
        fflush(stdout);
        _exit(5);
    }
    if (k != kind || strcmp(nm, name) != 0) {
        printf("REPLAY-DIVERGED expected %c %s got %c %s\n", kind, name, k, nm);
        fflush(stdout);
        _exit(5);
    }
    return v;
}

int64_t sym_i64(const char *name) { return (int64_t)next_val('i', name); }
uint64_t sym_u64(const char *name) { return next_val('i', name); }
uint64_t sym_choice(uint64_t n, const char *name) { (void)n; return next_val('i', name); }
int64_t sym_range(int64_t lo, int64_t hi, const char *name) { (void)lo; (void)hi; return (int64_t)next_val('i', name); }

double sym_f64(const char *name)
{
    uint64_t b = next_val('f', name);
    double d;
    memcpy(&d, &b, 8);
    return d;
}

void sym_assume(int c)
{
    if (!c) {
        printf("ASSUME-FAIL\n");
        fflush(stdout);
        _exit(3);
    }
}

void sym_assert(int c, const char *msg)
{
    if (!c) {
        nfail++;
        printf("ASSERT-FAIL %s\n", msg);
        fflush(stdout);
    }
}

void sym_tag(const char *name, int c) { printf("TAG %s %d\n", name, c != 0); }
void sym_note(const char *msg, uint64_t v) { printf("NOTE %s %" PRIu64 "\n", msg, v); }
void sym_notef(const char *msg, double v) { printf("NOTEF %s %.17g\n", msg, v); }
void sym_cover(const char *name) { printf("COVER %s\n", name); }
int sym_is_replay(void) { return 1; }
void sym_capture_reset(void) { }
uint64_t sym_capture_count(void) { return 0; }
double sym_capture_f64(uint64_t i) { (void)i; return 0.0; }

void sym_end(void)
{
    printf("END %d\n", nfail);
    fflush(stdout);
    _exit(nfail ? 1 : 0);
}

void *sym_fn(const char *name)
{
    void *p = dlsym(RTLD_DEFAULT, name);
    if (p == NULL) {
        printf("REPLAY-ERROR sym_fn %s\n", name);
        fflush(stdout);
        _exit(4);
    }
    return p;
}

#ifdef SYM_DRAWS
/* the raw generator output is an input of the path: every call takes the next recorded draw */
static int draws_exhausted;
static uint64_t draw_fill = 0x9E3779B97F4A7C15ull;
static uint64_t draw_log[4096];
static unsigned draw_n, draw_i;
static uint64_t draw_next(void);
void sym_draws_rewind(void) { draw_i = 0; }
uint64_t cmb_random_sfc64(void)
{
    if (draw_i < draw_n) return draw_log[draw_i++];
    uint64_t v = draw_next();
    if (draw_n < 4096) { draw_log[draw_n++] = v; draw_i = draw_n; }
    return v;
}
static uint64_t draw_next(void)
{
    /* a violation reported in mid-path leaves the rest of the draws open: any value is an admissible continuation */
    if (!draws_exhausted) {
        open_in();
        long pos = ftell(in);
        char k; char nm[256]; uint64_t v;
        if (fscanf(in, " %c %255s %" SCNu64, &k, nm, &v) == 3) {
            fseek(in, pos, SEEK_SET);
            return next_val('i', "draw");
        }
        draws_exhausted = 1;
    }
    draw_fill = draw_fill * 6364136223846793005ull + 1442695040888963407ull;
    return (draw_fill & ~0xffull) | 1u;      /* stays on the ziggurat hot paths */
}
#else
void sym_draws_rewind(void) { }
#endif

/* the engine runs the library with a configurable page size (option pagesize): give the native run the same one */
#include <unistd.h>
#include <dlfcn.h>
long sysconf(int name)
{
    static long (*real)(int);
    if (name == _SC_PAGESIZE) {
        const char *e = getenv("SYM_PAGESIZE");
        if (e != NULL && atol(e) > 0) return atol(e);
    }
    if (real == NULL) real = (long (*)(int))dlsym(RTLD_NEXT, "sysconf");
    return real(name);
}

int main(void)
{
    open_in();
    if (getenv("SYM_FPTRAPS") != NULL) {
        /* the floating-point environment cimba_run_experiment gives its trials: invalid-operation and divide-by-zero trap */
        __builtin_ia32_ldmxcsr(0x1d00);
    }
    const char *e = getenv("SYM_ENTRY");
    for (const struct sym_entry *p = sym_entries; p->name != NULL; p++) {
        if (e != NULL && strcmp(e, p->name) == 0) {
            p->fn();
            sym_end();
        }
    }
    printf("REPLAY-ERROR no entry %s\n", e ? e : "(null)");
    return 4;
}
