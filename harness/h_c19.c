/* h_c19.c - C19: an experiment runs every trial exactly once with its own element, returns after all of them;
 * results are independent of what ran earlier on the same worker thread.
 *  (a) h_dispatch: the real cimba_run_experiment / worker_thread_func with engine threads: every interleaving
 *      (bounded number of preemptions) of NCORES workers over NTRIALS trials.
 *  (b) h_isolation: a representative trial (event queue, two processes, a resource, raw draws, flips, logger flags)
 *      executed on a fresh thread state and again after an arbitrary other trial: results must be identical. */
#include <stddef.h>
#include "sym.h"
#include "cimba.h"
#include "cmb_event.h"
#include "cmb_process.h"
#include "cmb_resource.h"
#include "cmb_random.h"
#include "cmb_logger.h"

#ifndef NTRIALS
#define NTRIALS 3
#endif
#ifndef PADWORDS
#define PADWORDS 1
#endif

struct trial { uint64_t id; uint64_t runs; uint64_t seen_self; uint64_t pad[PADWORDS]; };
static struct trial exp_arr[NTRIALS + 1];
static uint64_t total_calls;

static void trial_func(void *vp)
{
    struct trial *tp = vp;
    int inside = (tp >= &exp_arr[0] && tp < &exp_arr[NTRIALS]);
    sym_assert(inside, "the trial function only receives elements of the experiment array");
    if (!inside) return;
    sym_assert(tp == &exp_arr[tp->id], "each call receives its own element");
    tp->runs++;
    tp->seen_self = (uint64_t)tp;
    total_calls++;          /* harness-owned counter, deliberately racy: only compared when the run is over */
}

void h_dispatch(void)
{
    for (uint64_t i = 0; i <= NTRIALS; i++) { exp_arr[i].id = i; exp_arr[i].runs = 0; }
    cimba_run_experiment(exp_arr, NTRIALS, sizeof(struct trial), trial_func);
    for (uint64_t i = 0; i < NTRIALS; i++) sym_assert(exp_arr[i].runs == 1, "every trial has run exactly once when the experiment returns");
    sym_assert(exp_arr[NTRIALS].runs == 0, "nothing beyond the array is touched");
#ifdef WITNESS
    sym_assert(exp_arr[0].runs == 0, "WITNESS trials ran");
#endif
}

/* two experiments one after the other in the same program: the second must again run each of ITS trials once */
void h_dispatch_twice(void)
{
    for (uint64_t i = 0; i <= NTRIALS; i++) { exp_arr[i].id = i; exp_arr[i].runs = 0; }
    cimba_run_experiment(exp_arr, NTRIALS, sizeof(struct trial), trial_func);
    for (uint64_t i = 0; i < NTRIALS; i++) sym_assert(exp_arr[i].runs == 1, "every trial has run exactly once when the experiment returns");
    uint64_t n2 = NTRIALS > 1 ? NTRIALS - 1 : 1;
    cimba_run_experiment(exp_arr, n2, sizeof(struct trial), trial_func);
    for (uint64_t i = 0; i < NTRIALS; i++) sym_assert(exp_arr[i].runs == (i < n2 ? 2u : 1u), "a second experiment runs each of its trials exactly once");
}

/* the documented variant: no common function, each trial struct starts with its own function pointer */
struct ftrial { cimba_trial_func *fn; uint64_t id; uint64_t runs; };
static struct ftrial fexp[NTRIALS];
static void ftrial_a(void *vp) { struct ftrial *t = vp; t->runs += 1; }
static void ftrial_b(void *vp) { struct ftrial *t = vp; t->runs += 1; }
void h_dispatch_perfn(void)
{
    for (uint64_t i = 0; i < NTRIALS; i++) { fexp[i].fn = (i & 1) ? ftrial_b : ftrial_a; fexp[i].id = i; fexp[i].runs = 0; }
    cimba_run_experiment(fexp, NTRIALS, sizeof(struct ftrial), NULL);
    for (uint64_t i = 0; i < NTRIALS; i++) sym_assert(fexp[i].runs == 1, "every trial has run exactly once through its own function");
}

/* ---------------------------------------------------------------- (b) isolation */
struct sim { uint64_t seed; int64_t prio; double dur; uint64_t r0, r1; int f0, f1, f2; double end_time; uint64_t nev; int64_t sig; double u; };
static struct cmb_resource *res;
static double sdur;
static void *sp1(struct cmb_process *me, void *ctx) { (void)me; (void)ctx; cmb_resource_acquire(res); cmb_process_hold(sdur); cmb_resource_release(res); return 0; }
static void *sp2(struct cmb_process *me, void *ctx) { (void)me; struct sim *s = ctx; s->sig = cmb_resource_acquire(res); cmb_process_hold(1.0); cmb_resource_release(res); return 0; }

static void run_sim(struct sim *s, int variant)
{
    cmb_logger_flags_off(0xFFFFFFFFu);
    if (variant) cmb_logger_flags_on(CMB_LOGGER_WARNING);         /* a trial that leaves a different logger setting behind */
    cmb_random_initialize(s->seed);
    cmb_event_queue_initialize(variant ? 5.0 : 0.0);
    res = cmb_resource_create(); cmb_resource_initialize(res, "r");
    sdur = s->dur;
    struct cmb_process *a = cmb_process_create(), *b = cmb_process_create();
    cmb_process_initialize(a, "a", sp1, s, s->prio);
    cmb_process_initialize(b, "b", sp2, s, 0);
    cmb_process_start(a); cmb_process_start(b);
    s->r0 = cmb_random_sfc64();
    s->f0 = cmb_random_flip(); s->f1 = cmb_random_flip();
    s->u = cmb_random();
    uint64_t n = 0;
    while (cmb_event_execute_next()) n++;
    s->nev = n;
    s->end_time = cmb_time();
    s->r1 = cmb_random_sfc64();
    s->f2 = cmb_random_flip();
    if (variant) (void)cmb_random_flip();                          /* leaves a partly used bit cache behind */
    cmb_process_terminate(a); cmb_process_destroy(a); cmb_process_terminate(b); cmb_process_destroy(b);
    cmb_resource_destroy(res);
    cmb_event_queue_terminate();
    if (!variant) cmb_random_terminate();         /* the other trial leaves its generator state (and bit cache) behind */
}

void h_isolation(void)
{
    struct sim p, q, again;
    p.seed = sym_u64("seed"); p.prio = sym_range(-1, 1, "prio"); p.dur = sym_f64("dur"); sym_assume(p.dur >= 0.0 && p.dur <= 4.0);
    again = p;
    q.seed = sym_u64("other_seed"); q.prio = sym_range(-1, 1, "other_prio"); q.dur = sym_f64("other_dur"); sym_assume(q.dur >= 0.0 && q.dur <= 4.0);
    run_sim(&p, 0);
    run_sim(&q, 1);
    run_sim(&again, 0);
    sym_assert(p.r0 == again.r0 && p.r1 == again.r1, "raw draws of a trial do not depend on what ran before on the thread");
    sym_assert(p.f0 == again.f0 && p.f1 == again.f1 && p.f2 == again.f2, "coin flips of a trial do not depend on what ran before on the thread");
    sym_assert(p.u == again.u, "uniform draws of a trial do not depend on what ran before on the thread");
    sym_assert(p.end_time == again.end_time && p.nev == again.nev && p.sig == again.sig, "the simulation result of a trial does not depend on what ran before on the thread");
#ifdef WITNESS
    sym_assert(p.nev == 0, "WITNESS events executed");
#endif
}

const struct sym_entry sym_entries[] = { {"h_dispatch", h_dispatch}, {"h_dispatch_perfn", h_dispatch_perfn}, {"h_dispatch_twice", h_dispatch_twice}, {"h_isolation", h_isolation}, {0, 0} };
