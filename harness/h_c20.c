/* h_c20.c - C20: objects from a memory pool are 8-byte aligned, large enough, pairwise disjoint, keep their
 * contents until freed, are never handed out twice while live; across expansions, including the growth of
 * the chunk list itself (64 chunks); dynamic and statically initialised thread-local pools. */
#include <stddef.h>
#include "sym.h"
#include "cmb_assert.h"
#include "cmi_mempool.h"

#ifndef OBJSZ
#define OBJSZ 16
#endif
#ifndef OBJNUM
#define OBJNUM 2
#endif
#ifndef LEN
#define LEN 6
#endif
#ifndef NBULK
#define NBULK 0
#endif
#define MAXLIVE 16

static CMB_THREAD_LOCAL struct cmi_mempool static_pool = CMI_MEMPOOL_STATIC_INIT(OBJSZ, OBJNUM);

struct obj { unsigned char *p; uint64_t stamp; int live; };
static struct obj objs[MAXLIVE];
static int nobj;

static void fill(unsigned char *p, uint64_t stamp)
{
    for (size_t k = 0; k + 8 <= OBJSZ; k += 8) *(uint64_t *)(p + k) = stamp + k;
}
static void verify(const unsigned char *p, uint64_t stamp)
{
    for (size_t k = 0; k + 8 <= OBJSZ; k += 8) sym_assert(*(const uint64_t *)(p + k) == stamp + k, "an allocated object keeps its contents until it is returned");
}

static void history(struct cmi_mempool *mp)
{
    for (int step = 0; step < LEN; step++) {
        int nlive = 0;
        for (int i = 0; i < nobj; i++) nlive += objs[i].live;
        uint64_t op = (nlive == 0 || nobj >= MAXLIVE) ? (nlive == 0 ? 0 : 1) : sym_choice(2, "op");
        if (op == 0 && nobj < MAXLIVE) {
            unsigned char *p = cmi_mempool_alloc(mp);
            sym_assert(p != NULL, "alloc returns an object");
            sym_assert(((uintptr_t)p % 8u) == 0, "objects are 8-byte aligned");
            for (int i = 0; i < nobj; i++) {
                if (!objs[i].live) continue;
                sym_assert(p + OBJSZ <= objs[i].p || objs[i].p + OBJSZ <= p, "a new object is disjoint from every live object");
            }
            objs[nobj].p = p; objs[nobj].stamp = sym_u64("stamp"); objs[nobj].live = 1;
            fill(p, objs[nobj].stamp);
            nobj++;
        } else {
            /* free a live object chosen by the solver */
            uint64_t w = sym_choice((uint64_t)nobj, "which");
            sym_assume(objs[w].live);
            verify(objs[w].p, objs[w].stamp);
            cmi_mempool_free(mp, objs[w].p);
            objs[w].live = 0;
        }
        for (int i = 0; i < nobj; i++) if (objs[i].live) verify(objs[i].p, objs[i].stamp);
    }
}

void h_dynamic(void)
{
    struct cmi_mempool *mp = cmi_mempool_create();
    cmi_mempool_initialize(mp, OBJSZ, OBJNUM);
    sym_assert(mp->incr_num >= OBJNUM && mp->incr_num * OBJSZ <= mp->incr_sz, "chunk geometry covers the requested objects");
    history(mp);
#ifdef WITNESS
    sym_assert(nobj < 2, "WITNESS two objects were allocated");
#endif
    cmi_mempool_destroy(mp);
}

void h_static(void)
{
    history(&static_pool);
    sym_assert(static_pool.cookie == CMI_INITIALIZED, "a static pool is initialised by its first allocation");
    cmi_mempool_cleanup(NULL);
    sym_assert(static_pool.chunk_list == NULL, "cleanup releases the chunks of every static pool of the thread");
}

/* many live objects: cross NBULK allocations (every chunk boundary up to and past the 64th chunk), each stamped */
void h_bulk(void)
{
    struct cmi_mempool *mp = cmi_mempool_create();
    cmi_mempool_initialize(mp, OBJSZ, OBJNUM);
    static unsigned char *all[NBULK + 1];
    uint64_t salt = sym_u64("salt");
    for (int i = 0; i < NBULK; i++) {
        all[i] = cmi_mempool_alloc(mp);
        sym_assert(((uintptr_t)all[i] % 8u) == 0, "objects are 8-byte aligned");
        *(uint64_t *)all[i] = salt + (uint64_t)i;
        if (OBJSZ >= 16) *(uint64_t *)(all[i] + OBJSZ - 8) = salt ^ (uint64_t)i;
    }
    if (mp->chunk_list_cnt > 64) sym_cover("more-than-64-chunks");
    for (int i = 0; i < NBULK; i++) {
        sym_assert(*(uint64_t *)all[i] == salt + (uint64_t)i, "live objects never overlap (first word intact)");
        if (OBJSZ >= 16) sym_assert(*(uint64_t *)(all[i] + OBJSZ - 8) == (salt ^ (uint64_t)i), "live objects never overlap (last word intact)");
    }
    /* free every other one, allocate again: must reuse only freed objects */
    for (int i = 0; i < NBULK; i += 2) cmi_mempool_free(mp, all[i]);
    for (int i = 0; i < NBULK; i += 2) { all[i] = cmi_mempool_alloc(mp); *(uint64_t *)all[i] = salt + (uint64_t)i; }
    for (int i = 0; i < NBULK; i++) sym_assert(*(uint64_t *)all[i] == salt + (uint64_t)i, "re-allocated objects do not overlap live ones");
#ifdef WITNESS
    sym_assert(mp->chunk_list_cnt < 2, "WITNESS more than one chunk");
#endif
    cmi_mempool_destroy(mp);
}

const struct sym_entry sym_entries[] = { {"h_dynamic", h_dynamic}, {"h_static", h_static}, {"h_bulk", h_bulk}, {0, 0} };
