/* h_c17.c - C17: data summaries equal the exactly computed sample statistics; merging = concatenation;
 * weighted summary: exact weighted mean, zero weights ignored, unit weights = unweighted, scale invariance.
 * Doubles are exact reals in the engine, so every assertion is an algebraic identity decided by z3. */
#include <stddef.h>
#include "sym.h"
#include "cmb_datasummary.h"
#include "cmb_wtdsummary.h"
#include "cmb_dataset.h"
#include "cmb_timeseries.h"
#include <math.h>
/* exact in the engine (reals); tolerant in the native replay, where doubles round */
#ifdef SYM_NATIVE
#define EQ(a, b) (fabs((a) - (b)) <= 1e-6 * (1.0 + fabs(a) + fabs(b)) + 1e-3)
#else
#define EQ(a, b) ((a) == (b))
#endif
#ifdef SYM_NATIVE
#define SKEWEQ(a, b, scale) (fabs((a) - (b)) <= 1e-6 * (scale))
#else
#define SKEWEQ(a, b, scale) ((a) == (b))
#endif

#ifndef K
#define K 3
#endif
#ifndef K1
#define K1 1        /* split point for merge families */
#endif

static double x[8], w[8];

static void mksamples(int k)
{
    for (int i = 0; i < k; i++) { x[i] = sym_f64("x"); sym_assume(x[i] >= -1000.0 && x[i] <= 1000.0); }
}
static void mkweights(int k)
{
    for (int i = 0; i < k; i++) { w[i] = sym_f64("w"); sym_assume(w[i] >= 0.0 && w[i] <= 100.0); }
}

/* exact central power sums of x[lo..hi) */
static double mean_of(int lo, int hi) { double s = 0.0; for (int i = lo; i < hi; i++) s += x[i]; return s / (double)(hi - lo); }
static double cps(int lo, int hi, int p)
{
    double m = mean_of(lo, hi), s = 0.0;
    for (int i = lo; i < hi; i++) { double d = x[i] - m, t = d; for (int q = 1; q < p; q++) t *= d; s += t; }
    return s;
}
static void check_against_definition(const struct cmb_datasummary *ds, int lo, int hi, const char *unused)
{
    (void)unused;
    int n = hi - lo;
    sym_assert(cmb_datasummary_count(ds) == (uint64_t)n, "count equals the number of samples");
    if (n == 0) {
        sym_assert(ds->m1 == 0.0 && ds->m2 == 0.0 && ds->m3 == 0.0 && ds->m4 == 0.0, "an empty summary (also a merge of empty summaries) is in its initial state");
        sym_assert(cmb_datasummary_mean(ds) == 0.0 && cmb_datasummary_variance(ds) == 0.0, "an empty summary reports zero mean and variance");
        return;
    }
    double mn = x[lo], mx = x[lo];
    for (int i = lo + 1; i < hi; i++) { if (x[i] < mn) mn = x[i]; if (x[i] > mx) mx = x[i]; }
    sym_assert(cmb_datasummary_min(ds) == mn, "min equals the smallest sample");
    sym_assert(cmb_datasummary_max(ds) == mx, "max equals the largest sample");
    sym_assert(EQ(cmb_datasummary_mean(ds), mean_of(lo, hi)), "mean equals the exact sample mean");
    sym_assert(EQ(ds->m2, cps(lo, hi, 2)), "second central moment sum is exact");
    sym_assert(EQ(ds->m3, cps(lo, hi, 3)), "third central moment sum is exact");
    sym_assert(EQ(ds->m4, cps(lo, hi, 4)), "fourth central moment sum is exact");
    if (n > 1) sym_assert(EQ(cmb_datasummary_variance(ds) * (double)(n - 1), cps(lo, hi, 2)), "variance is the unbiased sample variance");
    else sym_assert(cmb_datasummary_variance(ds) == 0.0, "variance of fewer than two samples is reported as 0");
}

/* skewness / kurtosis accessors against their definitions (squared / cleared of roots) */
static void check_shape(const struct cmb_datasummary *ds, int n)
{
    double m2 = cps(0, n, 2), m3 = cps(0, n, 3), m4 = cps(0, n, 4), dn = (double)n;
    if (n > 3) {
        sym_assume(m2 > 0.001);
        double g2 = dn * m4 / (m2 * m2) - 3.0;
        double kdef = (dn - 1.0) / ((dn - 2.0) * (dn - 3.0)) * ((dn + 1.0) * g2 + 6.0);
        sym_assert(EQ(cmb_datasummary_kurtosis(ds), kdef), "kurtosis equals the corrected sample excess kurtosis");
    } else sym_assert(cmb_datasummary_kurtosis(ds) == 0.0, "kurtosis of fewer than four samples is reported as 0");
    if (n > 2) {
        sym_assume(m2 > 0.001);
        double s = cmb_datasummary_skewness(ds);
        /* G1 = sqrt(n(n-1))/(n-2) * sqrt(n) m3 / m2^1.5  <=>  G1^2 (n-2)^2 m2^3 = n^2 (n-1) m3^2, same sign as m3 */
        sym_assert(SKEWEQ(s * s * (dn - 2.0) * (dn - 2.0) * m2 * m2 * m2, dn * dn * (dn - 1.0) * m3 * m3, 1.0 + m2 * m2 * m2), "skewness equals the corrected sample skewness (squared form)");
        sym_assert((s > 0.0) == (m3 > 0.0) && (s < 0.0) == (m3 < 0.0), "skewness has the sign of the third central moment");
    } else sym_assert(cmb_datasummary_skewness(ds) == 0.0, "skewness of fewer than three samples is reported as 0");
}

void h_add(void)
{
    struct cmb_datasummary ds;
    cmb_datasummary_initialize(&ds);
    mksamples(K);
    check_against_definition(&ds, 0, 0, "empty");
    for (int i = 0; i < K; i++) {
        sym_assert(cmb_datasummary_add(&ds, x[i]) == (uint64_t)(i + 1), "add returns the new count");
        check_against_definition(&ds, 0, i + 1, "prefix");
    }
#ifdef WITNESS
    sym_assert(cmb_datasummary_count(&ds) == 0, "WITNESS samples were added");
#endif
}

void h_shape(void)
{
    struct cmb_datasummary ds;
    cmb_datasummary_initialize(&ds);
    mksamples(K);
    for (int i = 0; i < K; i++) cmb_datasummary_add(&ds, x[i]);
    check_shape(&ds, K);
}

/* constant data: m2 = 0 (0/0 in skewness and kurtosis) - what the accessors return must at least not be NaN/inf */
void h_constant(void)
{
    struct cmb_datasummary ds;
    cmb_datasummary_initialize(&ds);
    double c = sym_f64("c"); sym_assume(c >= -1000.0 && c <= 1000.0);
    for (int i = 0; i < K; i++) cmb_datasummary_add(&ds, c);
    sym_assert(cmb_datasummary_mean(&ds) == c && cmb_datasummary_variance(&ds) == 0.0, "constant data: mean = value, variance = 0");
    double s = cmb_datasummary_skewness(&ds), k = cmb_datasummary_kurtosis(&ds);
    sym_assert(s == s && k == k, "constant data: skewness and kurtosis are numbers");
}

/* merge(A,B) = summary(A || B), either order, into a third object or into either operand, empty parts allowed */
void h_merge(void)
{
    struct cmb_datasummary a, b, t;
    cmb_datasummary_initialize(&a); cmb_datasummary_initialize(&b); cmb_datasummary_initialize(&t);
    mksamples(K);
    for (int i = 0; i < K1; i++) cmb_datasummary_add(&a, x[i]);
    for (int i = K1; i < K; i++) cmb_datasummary_add(&b, x[i]);
    uint64_t how = sym_choice(4, "merge_target");
    const struct cmb_datasummary *res;
    if (how == 0) { sym_assert(cmb_datasummary_merge(&t, &a, &b) == (uint64_t)K, "merge returns the merged count"); res = &t; }
    else if (how == 1) { cmb_datasummary_merge(&t, &b, &a); res = &t; }
    else if (how == 2) { cmb_datasummary_merge(&a, &a, &b); res = &a; }
    else { cmb_datasummary_merge(&b, &a, &b); res = &b; }
    sym_tag("both_empty", K == 0);
    check_against_definition(res, 0, K, "merged");
#ifdef WITNESS
    sym_assert(how != 3, "WITNESS merge into the second operand reached");
#endif
}

/* ---------------------------------------------------------------- weighted */
static double wsum(int k) { double s = 0.0; for (int i = 0; i < k; i++) s += w[i]; return s; }
static double wmean(int k) { double s = 0.0; for (int i = 0; i < k; i++) s += w[i] * x[i]; return s / wsum(k); }

void h_weighted(void)
{
    struct cmb_wtdsummary ws;
    cmb_wtdsummary_initialize(&ws);
    mksamples(K); mkweights(K);
    uint64_t npos = 0;
    for (int i = 0; i < K; i++) { cmb_wtdsummary_add(&ws, x[i], w[i]); if (w[i] > 0.0) npos++; }
    sym_assert(cmb_wtdsummary_count(&ws) == npos, "zero-weight samples are ignored by the count");
    if (npos > 0) {
        sym_assert(EQ(cmb_wtdsummary_mean(&ws) * wsum(K), wmean(K) * wsum(K)), "weighted mean is exact");
        double mn = 0, mx = 0; int first = 1;
        for (int i = 0; i < K; i++) if (w[i] > 0.0) { if (first || x[i] < mn) mn = x[i]; if (first || x[i] > mx) mx = x[i]; first = 0; }
        sym_assert(cmb_wtdsummary_min(&ws) == mn && cmb_wtdsummary_max(&ws) == mx, "weighted min/max ignore zero-weight samples");
#ifdef MOMENTS
        /* the weighted central moment sums by their definition (independent of how the statistics are normalised) */
        const struct cmb_datasummary *wd = (const struct cmb_datasummary *)&ws;
        double mu = wmean(K), s2 = 0, s3 = 0, s4 = 0;
        for (int i = 0; i < K; i++) { double d = x[i] - mu; s2 += w[i] * d * d; s3 += w[i] * d * d * d; s4 += w[i] * d * d * d * d; }
        sym_assert(EQ(wd->m2, s2), "weighted second central moment sum equals its definition");
        sym_assert(EQ(wd->m3, s3), "weighted third central moment sum equals its definition");
        sym_assert(EQ(wd->m4, s4), "weighted fourth central moment sum equals its definition");
#endif
    }
}

/* all weights one: identical to the unweighted summary */
void h_unit_weights(void)
{
    struct cmb_wtdsummary ws; struct cmb_datasummary ds;
    cmb_wtdsummary_initialize(&ws); cmb_datasummary_initialize(&ds);
    mksamples(K);
    for (int i = 0; i < K; i++) { cmb_wtdsummary_add(&ws, x[i], 1.0); cmb_datasummary_add(&ds, x[i]); }
    const struct cmb_datasummary *wd = (const struct cmb_datasummary *)&ws;
    sym_assert(wd->count == ds.count && wd->min == ds.min && wd->max == ds.max, "unit weights: count/min/max as unweighted");
    sym_assert(EQ(wd->m1, ds.m1), "unit weights: mean as unweighted");
    sym_assert(EQ(wd->m2, ds.m2) && EQ(wd->m3, ds.m3) && EQ(wd->m4, ds.m4), "unit weights: central moment sums as unweighted");
    sym_assert(EQ(cmb_wtdsummary_variance(&ws), cmb_datasummary_variance(&ds)), "unit weights: variance as unweighted");
}

/* every statistic unchanged when all weights are multiplied by c > 0 */
void h_scale(void)
{
    struct cmb_wtdsummary a, b;
    cmb_wtdsummary_initialize(&a); cmb_wtdsummary_initialize(&b);
    mksamples(K); mkweights(K);
    double c = sym_f64("scale"); sym_assume(c > 0.01 && c <= 100.0);
    for (int i = 0; i < K; i++) { sym_assume(w[i] > 0.01); cmb_wtdsummary_add(&a, x[i], w[i]); cmb_wtdsummary_add(&b, x[i], c * w[i]); }
    sym_assert(EQ(cmb_wtdsummary_mean(&a), cmb_wtdsummary_mean(&b)), "weighted mean is invariant under scaling of the weights");
    sym_tag("scale_is_one", c == 1.0);
    sym_assert(EQ(cmb_wtdsummary_variance(&a), cmb_wtdsummary_variance(&b)), "weighted variance is invariant under scaling of the weights");
    double k1 = cmb_wtdsummary_kurtosis(&a), k2 = cmb_wtdsummary_kurtosis(&b);
    sym_assert(EQ(k1, k2), "weighted kurtosis is invariant under scaling of the weights");
}

void h_wmerge(void)
{
    struct cmb_wtdsummary a, b, t, all;
    cmb_wtdsummary_initialize(&a); cmb_wtdsummary_initialize(&b); cmb_wtdsummary_initialize(&t); cmb_wtdsummary_initialize(&all);
    mksamples(K); mkweights(K);
    for (int i = 0; i < K; i++) sym_assume(w[i] > 0.01);
    for (int i = 0; i < K1; i++) cmb_wtdsummary_add(&a, x[i], w[i]);
    for (int i = K1; i < K; i++) cmb_wtdsummary_add(&b, x[i], w[i]);
    for (int i = 0; i < K; i++) cmb_wtdsummary_add(&all, x[i], w[i]);
    if (sym_choice(2, "order") == 0) cmb_wtdsummary_merge(&t, &a, &b); else cmb_wtdsummary_merge(&t, &b, &a);
    const struct cmb_datasummary *td = (const struct cmb_datasummary *)&t, *ad = (const struct cmb_datasummary *)&all;
    sym_tag("both_empty", K == 0);
    if (K == 0) sym_assert(td->m1 == 0.0 && td->m2 == 0.0 && t.wsum == 0.0, "a weighted merge of empty summaries is an empty summary");
    sym_assert(td->count == ad->count && td->min == ad->min && td->max == ad->max, "weighted merge: count/min/max of the concatenation");
    sym_assert(EQ(td->m1, ad->m1), "weighted merge: mean of the concatenation");
    sym_assert(EQ(td->m2, ad->m2), "weighted merge: second moment sum of the concatenation");
    sym_assert(EQ(td->m3, ad->m3) && EQ(td->m4, ad->m4), "weighted merge: higher moment sums of the concatenation");
    sym_assert(EQ(t.wsum, all.wsum), "weighted merge: total weight of the concatenation");
}

/* dataset / timeseries summarize = adding the samples one by one */
void h_summarize(void)
{
    struct cmb_dataset d; struct cmb_datasummary s;
    cmb_dataset_initialize(&d); cmb_datasummary_initialize(&s);
    mksamples(K);
    for (int i = 0; i < K; i++) cmb_dataset_add(&d, x[i]);
    sym_assert(cmb_dataset_summarize(&d, &s) == (uint64_t)K, "dataset summarize returns the count");
    check_against_definition(&s, 0, K, "dataset");
    cmb_dataset_terminate(&d);
    /* time series: weights are the durations between successive samples */
    struct cmb_timeseries ts; struct cmb_wtdsummary ws;
    cmb_timeseries_initialize(&ts); cmb_wtdsummary_initialize(&ws);
    double t = 0.0, dur[8];
    for (int i = 0; i < K; i++) { cmb_timeseries_add(&ts, x[i], t); dur[i] = sym_f64("dur"); sym_assume(dur[i] >= 0.0 && dur[i] <= 10.0); t += dur[i]; }
    cmb_timeseries_finalize(&ts, t);
    cmb_timeseries_summarize(&ts, &ws);
    double W = 0.0, S = 0.0;
    for (int i = 0; i < K; i++) { W += dur[i]; S += dur[i] * x[i]; }
    sym_assume(W > 0.01);
    sym_assert(EQ(cmb_wtdsummary_mean(&ws) * W, S), "time series summary: duration-weighted mean is exact");
    cmb_timeseries_terminate(&ts);
}

const struct sym_entry sym_entries[] = { {"h_add", h_add}, {"h_shape", h_shape}, {"h_constant", h_constant}, {"h_merge", h_merge},
    {"h_weighted", h_weighted}, {"h_unit_weights", h_unit_weights}, {"h_scale", h_scale}, {"h_wmerge", h_wmerge}, {"h_summarize", h_summarize}, {0, 0} };
