/* h_c02.c - C02: the hashheap is a map key -> (payload, sort keys) + a priority queue under its
 * ordering function, for any operation history.  Shadow model updated from API results only,
 * plus a structural walker over the public struct fields after every operation.
 *   -DLEN=n     number of operations after the PRE enqueues
 *   -DPRE=n     enqueues done first (symbolic sort keys; keys auto or caller-supplied)
 *   -DHEXP=n    initial capacity exponent
 *   -DORD=k     ordering: 0 event, 1 guard, 2 holder, 3 prioq, 4 default
 *   -DOPSET=k   which operations the history may choose from (see below)
 *   -DCALLERKEYS=1  caller-supplied symbolic keys (collisions, re-insertion after removal)
 */
#include "sym.h"
#include "cmi_hashheap.h"

#ifndef LEN
#define LEN 2
#endif
#ifndef PRE
#define PRE 3
#endif
#ifndef HEXP
#define HEXP 1
#endif
#ifndef ORD
#define ORD 0
#endif
#ifndef OPSET
#define OPSET 0
#endif
#ifndef NSYM
#define NSYM 100
#endif
#ifndef NCANDSYM
#define NCANDSYM 2
#endif
#ifndef CALLERKEYS
#define CALLERKEYS 0
#endif
#define MAXE (PRE + LEN + 1)

struct sh { uint64_t key; void *pl[4]; double d; int64_t i; int live; };
static struct sh sh[MAXE];
static int nsh;
static struct cmi_hashheap hh;
static cmi_heap_compare_func *ord;
static char pay[3];
static uint64_t removed_key;   /* a key that was live once and has been removed (for re-insertion) */

static const char *ordname[] = { "heap_order_check", "guard_queue_check", "holder_queue_check", "compare_func", "default_order_check" };

static int nlive(void) { int n = 0; for (int i = 0; i < nsh; i++) n += sh[i].live; return n; }
static struct sh *find(uint64_t key) { for (int i = 0; i < nsh; i++) if (sh[i].live && sh[i].key == key) return &sh[i]; return 0; }

static bool sh_before(const struct sh *a, const struct sh *b)
{
    struct cmi_heap_tag ta = { .key = a->key, .dsortkey = a->d, .isortkey = a->i };
    struct cmi_heap_tag tb = { .key = b->key, .dsortkey = b->d, .isortkey = b->i };
    return ord(&ta, &tb);
}

static void walk(void)
{
    sym_assert(hh.heap_count == (uint64_t)nlive(), "count equals number of live keys");
    sym_assert(cmi_hashheap_count(&hh) == hh.heap_count, "count query");
    sym_assert(hh.hash_size == 2u * hh.heap_size, "hash map is twice the heap size");
    sym_assert(hh.heap_size == (UINT64_C(1) << hh.heap_exp_cur), "heap size is a power of two");
    sym_assert(hh.heap_count <= hh.heap_size, "count within capacity");
    for (uint64_t k = 1; k <= hh.heap_count; k++) {
        const struct cmi_heap_tag *t = &hh.heap[k];
        struct sh *s = find(t->key);
        sym_assert(s != 0, "every heap entry is a live key");
        if (s == 0) continue;
        sym_assert(t->item[0] == s->pl[0] && t->item[1] == s->pl[1] && t->item[2] == s->pl[2] && t->item[3] == s->pl[3],
                   "payload stays attached to its key");
        sym_assert(t->dsortkey == s->d && t->isortkey == s->i, "sort keys stay attached to their key");
        sym_assert(t->hash_index < hh.hash_size, "hash index in range");
        sym_assert(hh.hash_map[t->hash_index].key == t->key && hh.hash_map[t->hash_index].heap_index == k,
                   "hash map slot points back at the heap entry");
        if (k > 1) sym_assert(!ord(t, &hh.heap[k >> 1]), "heap order along parent/child edge");
    }
    for (int i = 0; i < nsh; i++) {
        if (sh[i].key == 0) continue;
        bool e = cmi_hashheap_is_enqueued(&hh, sh[i].key);
        /* a key may be live under a newer shadow entry (re-insertion) */
        sym_assert(e == (find(sh[i].key) != 0), "is_enqueued agrees with the live set");
    }
}

static void check_top(void)
{
    void **it = cmi_hashheap_peek_item(&hh);
    if (nlive() == 0) { sym_assert(it == 0, "peek on empty returns NULL"); return; }
    sym_assert(it != 0, "peek on non-empty returns an item");
    /* identify the top entry through its sort keys and payload: no live entry may precede it */
    double d = cmi_hashheap_peek_dkey(&hh); int64_t ik = cmi_hashheap_peek_ikey(&hh);
    uint64_t k = hh.heap[1].key;
    struct sh *s = find(k);
    sym_assert(s != 0 && s->d == d && s->i == ik && it[0] == s->pl[0], "peek returns a live entry with its keys and payload");
    if (s) for (int j = 0; j < nsh; j++) if (sh[j].live && &sh[j] != s) sym_assert(!sh_before(&sh[j], s), "peek returns the minimum under the ordering");
}

static void do_enqueue(int callerkey)
{
    struct sh *s = &sh[nsh];
    if (nsh < NSYM) {
        s->d = sym_f64("d"); s->i = sym_i64("i");
        sym_assume(s->d >= -1000.0 && s->d <= 1000.0);
    } else {
        s->d = (double)((nsh * 7) % 5); s->i = (int64_t)((nsh * 3) % 4);      /* concrete filler entries, with ties */
    }
    for (int m = 0; m < 4; m++) s->pl[m] = 0;
    s->pl[0] = &pay[nsh % 2];
    s->pl[1] = &pay[(nsh / 2) % 3];
    uint64_t key = 0;
    if (callerkey == 2) {
        /* candidate keys: 1, 56, 90 share their home slot at every capacity up to 64 slots; 6 shares it
         * at 4 slots only; 3 and 4 live in the neighbouring slots (probe sequences run into them);
         * the last one has the top bit set.  (home slot = (key * 11400714819323198485) >> (64 - bits)) */
        static const uint64_t cand[7] = { 1, 56, 90, 6, 3, 4, UINT64_C(0x8000000000000001) };
        key = cand[(nsh * 2 + sym_choice(nsh < NCANDSYM ? 4 : 1, "candkey")) % 7];   /* the first NCANDSYM entries pick among 4 candidates */
        for (int j = 0; j < nsh; j++) if (sh[j].live) sym_assume(sh[j].key != key);
        if (removed_key != 0) sym_tag("reinserted", key == removed_key);
    } else if (callerkey) {
        key = sym_u64("key");
        sym_assume(key != 0);
        for (int j = 0; j < nsh; j++) if (sh[j].live) sym_assume(sh[j].key != key);   /* documented: unique among live keys */
        if (removed_key != 0) sym_tag("reinserted", key == removed_key);
    }
    uint64_t r = cmi_hashheap_enqueue(&hh, s->pl[0], s->pl[1], s->pl[2], s->pl[3], key, s->d, s->i);
    sym_assert(r != 0, "enqueue returns a non-zero key");
    if (callerkey) sym_assert(r == key, "enqueue returns the caller-supplied key");
    else for (int j = 0; j < nsh; j++) sym_assert(sh[j].key != r, "automatically issued keys are fresh");
    s->key = r; s->live = 1; nsh++;
}

static void do_op(void)
{
    /* OPSET 0: all; 1: enqueue/dequeue/remove only; 2: reprioritize-heavy; 3: pattern ops */
    static const int sets[4][9] = { {0, 1, 2, 3, 4, 5, 6, 7, 8}, {0, 1, 2, 0, 1, 2, 0, 1, 2}, {0, 3, 3, 1, 2, 3, 0, 3, 1}, {0, 5, 6, 5, 6, 2, 7, 8, 6} };
    static const int nset[4] = { 9, 3, 4, 5 };
#ifdef OPSEQ
    static const int opseq[] = OPSEQ;          /* a fixed operation sequence instead of a choice per step */
    static int seqpos;
    int op = opseq[seqpos++];
#else
    uint64_t c = sym_choice(nset[OPSET], "op");
    int op = OPSET == 0 ? (int)c : OPSET == 1 ? (int)c : OPSET == 2 ? (int[]){0, 3, 1, 2}[c] : (int[]){0, 5, 6, 7, 8}[c];
#endif
    (void)sets;
    sym_note("op", (uint64_t)op);
    switch (op) {
    case 0: do_enqueue(CALLERKEYS); break;
    case 1: { /* dequeue */
        void **it = cmi_hashheap_dequeue(&hh);
        if (nlive() == 0) { sym_assert(it == 0, "dequeue on empty returns NULL"); break; }
        sym_assert(it != 0, "dequeue on non-empty returns an item");
        uint64_t k = hh.heap[0].key;
        struct sh *s = find(k);
        sym_assert(s != 0, "dequeued key was live");
        if (!s) break;
        sym_assert(it[0] == s->pl[0] && it[1] == s->pl[1], "dequeue delivers the payload of its key");
        sym_assert(hh.heap[0].dsortkey == s->d && hh.heap[0].isortkey == s->i, "dequeue delivers the sort keys of its key");
        for (int j = 0; j < nsh; j++) if (sh[j].live && &sh[j] != s) sym_assert(!sh_before(&sh[j], s), "dequeue returns the minimum under the ordering");
        s->live = 0; removed_key = s->key;
        break; }
    case 2: { /* remove: live key or absent key */
        uint64_t w = sym_choice(nsh + 1, "which");
        if ((int)w == nsh) {
            uint64_t k = sym_u64("absent_key");
            sym_assume(k != 0);
            for (int j = 0; j < nsh; j++) if (sh[j].live) sym_assume(sh[j].key != k);
            sym_assert(cmi_hashheap_remove(&hh, k) == false, "remove of an absent key returns false");
        } else {
            struct sh *s = &sh[w];
            bool was = find(s->key) != 0;
            bool r = cmi_hashheap_remove(&hh, s->key);
            sym_assert(r == was, "remove returns whether the key was live");
            if (was) { struct sh *l = find(s->key); l->live = 0; removed_key = l->key; }
        }
        break; }
    case 3: { /* reprioritize a live key */
        uint64_t w = sym_choice(nsh, "which");
        struct sh *s = &sh[w];
        sym_assume(s->live);
        double d = sym_f64("nd"); int64_t i = sym_i64("ni");
        sym_assume(d >= -1000.0 && d <= 1000.0);
        cmi_hashheap_reprioritize(&hh, s->key, d, i);
        s->d = d; s->i = i;
        break; }
    case 4: { /* item / dkey / ikey of a live key */
        uint64_t w = sym_choice(nsh, "which");
        struct sh *s = &sh[w];
        sym_assume(s->live);
        void **it = cmi_hashheap_item(&hh, s->key);
        sym_assert(it[0] == s->pl[0] && it[1] == s->pl[1] && it[2] == s->pl[2] && it[3] == s->pl[3], "item returns the payload of the key");
        sym_assert(cmi_hashheap_dkey(&hh, s->key) == s->d, "dkey returns the key's sort key");
        sym_assert(cmi_hashheap_ikey(&hh, s->key) == s->i, "ikey returns the key's sort key");
        break; }
    case 5: case 6: case 7: { /* pattern count / find / cancel on (pl0, pl1) with wildcards */
        uint64_t a = sym_choice(4, "pat0"), b = sym_choice(4, "pat1");
        const void *p0 = a == 3 ? CMI_ANY_ITEM : (void *)&pay[a];
        const void *p1 = b == 3 ? CMI_ANY_ITEM : (void *)&pay[b];
        uint64_t expect = 0;
        for (int j = 0; j < nsh; j++) if (sh[j].live && (a == 3 || sh[j].pl[0] == p0) && (b == 3 || sh[j].pl[1] == p1)) expect++;
        if (op == 5) sym_assert(cmi_hashheap_pattern_count(&hh, p0, p1, CMI_ANY_ITEM, CMI_ANY_ITEM) == expect, "pattern_count agrees");
        else if (op == 6) {
            uint64_t f = cmi_hashheap_pattern_find(&hh, p0, p1, CMI_ANY_ITEM, 0);
            struct sh *s = f ? find(f) : 0;
            sym_assert((f != 0) == (expect != 0), "pattern_find finds iff a match is live");
            if (f) sym_assert(s && (a == 3 || s->pl[0] == p0) && (b == 3 || s->pl[1] == p1), "pattern_find returns a matching live key");
        } else {
            uint64_t n = cmi_hashheap_pattern_cancel(&hh, p0, p1, 0, CMI_ANY_ITEM);
            sym_assert(n == expect, "pattern_cancel returns the number of matches");
            for (int j = 0; j < nsh; j++) if (sh[j].live && (a == 3 || sh[j].pl[0] == p0) && (b == 3 || sh[j].pl[1] == p1)) { sh[j].live = 0; removed_key = sh[j].key; }
        }
        break; }
    case 8: { /* clear or reset */
        if (sym_choice(2, "clear_or_reset") == 0) cmi_hashheap_clear(&hh); else cmi_hashheap_reset(&hh);
        for (int j = 0; j < nsh; j++) sh[j].live = 0;
        break; }
    }
}

void h_c02(void)
{
    ord = ORD == 4 ? 0 : (cmi_heap_compare_func *)sym_fn(ordname[ORD]);
    cmi_hashheap_initialize(&hh, HEXP, ord);
    if (ord == 0) ord = (cmi_heap_compare_func *)sym_fn(ordname[4]);
    walk();
    for (int i = 0; i < PRE; i++) { do_enqueue(CALLERKEYS); walk(); }
    check_top();
    for (int i = 0; i < LEN; i++) { do_op(); walk(); check_top(); }
    /* drain: everything still live comes out exactly once, in order */
    int n = nlive();
    for (int i = 0; i < n; i++) {
        void **it = cmi_hashheap_dequeue(&hh);
        sym_assert(it != 0, "drain: item");
        struct sh *s = find(hh.heap[0].key);
        sym_assert(s != 0, "drain: live key");
        if (s) {
            for (int j = 0; j < nsh; j++) if (sh[j].live && &sh[j] != s) sym_assert(!sh_before(&sh[j], s), "drain: minimum first");
            sym_assert(it[0] == s->pl[0], "drain: payload");
            s->live = 0;
        }
    }
    sym_assert(cmi_hashheap_dequeue(&hh) == 0, "empty after drain");
#ifdef WITNESS
    sym_assert(n < 2, "WITNESS at least two entries were drained");
#endif
    cmi_hashheap_terminate(&hh);
}
const struct sym_entry sym_entries[] = { {"h_c02", h_c02}, {0, 0} };
