/* h_c10.c - C10 families that put containers across their growth thresholds while the library
 * holds pointers into them, and valid programs around empty event queues. */
#include "sym.h"
#include "cmb_event.h"
#include "cmb_process.h"
#include "cmb_logger.h"

#ifndef NWAIT
#define NWAIT 2
#endif
#ifndef NPEND
#define NPEND 8       /* events pending (including the awaited one) when it fires */
#endif

static uint64_t awaited;
static int nwoken, ran_awaited, nfill;
static int64_t wsig[16];

static void ev_awaited(void *s, void *o) { (void)s; (void)o; ran_awaited++; }
static void ev_fill(void *s, void *o) { (void)s; (void)o; nfill++; }

static void *waiter(struct cmb_process *me, void *ctx)
{
    (void)me;
    int64_t r = cmb_process_wait_event(awaited);
    wsig[(intptr_t)ctx] = r;
    nwoken++;
    return 0;
}

/* NWAIT processes wait for one event while the queue holds NPEND events: waking them has to
 * schedule NWAIT wake-ups while the dispatcher still holds the dequeued event */
void h_evgrow(void)
{
    cmb_logger_flags_off(0xFFFFFFFFu);
    cmb_event_queue_initialize(0.0);
    double ta = sym_f64("t_awaited");
    sym_assume(ta >= 1.0); sym_assume(ta <= 2.0);
    int64_t pa = sym_i64("prio_awaited");
    awaited = cmb_event_schedule(ev_awaited, 0, 0, ta, pa);
    struct cmb_process *w[NWAIT];
    for (intptr_t i = 0; i < NWAIT; i++) {
        w[i] = cmb_process_create();
        cmb_process_initialize(w[i], "w", waiter, (void *)i, sym_i64("wprio"));
        cmb_process_start(w[i]);
    }
    /* let the waiters start and block */
    for (int i = 0; i < NWAIT; i++) sym_assert(cmb_event_execute_next(), "start event");
    sym_assert(cmb_event_queue_count() == 1, "only the awaited event is pending");
    for (int i = 0; i < NPEND - 1; i++) (void)cmb_event_schedule(ev_fill, 0, 0, 10.0 + i, 0);
    sym_assert(cmb_event_queue_count() == NPEND, "queue filled");
    cmb_event_queue_execute();
    sym_assert(ran_awaited == 1, "awaited event ran once");
    sym_assert(nfill == NPEND - 1, "all fill events ran");
    sym_assert(nwoken == NWAIT, "every waiter was resumed");
    for (int i = 0; i < NWAIT; i++) sym_assert(wsig[i] == CMB_PROCESS_SUCCESS, "waiter resumed with success");
    for (int i = 0; i < NWAIT; i++) { cmb_process_terminate(w[i]); cmb_process_destroy(w[i]); }
    cmb_event_queue_terminate();
}

/* same, but the awaited event is cancelled instead of executed */
void h_evgrow_cancel(void)
{
    cmb_logger_flags_off(0xFFFFFFFFu);
    cmb_event_queue_initialize(0.0);
    awaited = cmb_event_schedule(ev_awaited, 0, 0, 5.0, 0);
    struct cmb_process *w[NWAIT];
    for (intptr_t i = 0; i < NWAIT; i++) {
        w[i] = cmb_process_create();
        cmb_process_initialize(w[i], "w", waiter, (void *)i, sym_i64("wprio"));
        cmb_process_start(w[i]);
    }
    for (int i = 0; i < NWAIT; i++) sym_assert(cmb_event_execute_next(), "start event");
    for (int i = 0; i < NPEND - 1; i++) (void)cmb_event_schedule(ev_fill, 0, 0, 10.0 + i, 0);
    sym_assert(cmb_event_cancel(awaited), "cancel finds the event");
    cmb_event_queue_execute();
    sym_assert(ran_awaited == 0, "cancelled event did not run");
    sym_assert(nwoken == NWAIT, "every waiter was resumed");
    for (int i = 0; i < NWAIT; i++) sym_assert(wsig[i] == CMB_PROCESS_CANCELLED, "waiter resumed with cancelled");
    for (int i = 0; i < NWAIT; i++) { cmb_process_terminate(w[i]); cmb_process_destroy(w[i]); }
    cmb_event_queue_terminate();
}

const struct sym_entry sym_entries[] = { {"h_evgrow", h_evgrow}, {"h_evgrow_cancel", h_evgrow_cancel}, {0, 0} };
