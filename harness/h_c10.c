/* h_c10.c - C10 families that put containers across their growth thresholds while the library
 * holds pointers into them, and valid programs around empty event queues. */
#include "sym.h"
#include "cmb_event.h"
#include "cmb_process.h"
#include "cmb_logger.h"
#include "cmb_resource.h"
#include "cmb_resourcepool.h"
#include "cmb_condition.h"

#ifndef NWAIT
#define NWAIT 2
#endif
#ifndef NPEND
#define NPEND 8       /* events pending (including the awaited one) when it fires */
#endif

static uint64_t awaited;
static int nwoken, ran_awaited, nfill;
static int64_t wsig[32];

static void ev_awaited(void *s, void *o) { (void)s; (void)o; ran_awaited++; }
static void ev_fill(void *s, void *o) { (void)s; (void)o; nfill++; }

static void *waiter(struct cmb_process *me, void *ctx)
{
    (void)me;
    int64_t r = cmb_process_wait_event(awaited);
    wsig[(intptr_t)ctx] = r;
    nwoken++;
    return 0;
}

/* NWAIT processes wait for one event while the queue holds NPEND events: waking them has to
 * schedule NWAIT wake-ups while the dispatcher still holds the dequeued event */
void h_evgrow(void)
{
    cmb_logger_flags_off(0xFFFFFFFFu);
    cmb_event_queue_initialize(0.0);
    double ta = sym_f64("t_awaited");
    sym_assume(ta >= 1.0); sym_assume(ta <= 2.0);
    int64_t pa = sym_i64("prio_awaited");
    awaited = cmb_event_schedule(ev_awaited, 0, 0, ta, pa);
    struct cmb_process *w[NWAIT];
    for (intptr_t i = 0; i < NWAIT; i++) {
        w[i] = cmb_process_create();
        cmb_process_initialize(w[i], "w", waiter, (void *)i, i < 2 ? sym_i64("wprio") : (int64_t)(i % 3));
        cmb_process_start(w[i]);
    }
    /* let the waiters start and block */
    for (int i = 0; i < NWAIT; i++) sym_assert(cmb_event_execute_next(), "start event");
    sym_assert(cmb_event_queue_count() == 1, "only the awaited event is pending");
    for (int i = 0; i < NPEND - 1; i++) (void)cmb_event_schedule(ev_fill, 0, 0, 10.0 + i, 0);
    sym_assert(cmb_event_queue_count() == NPEND, "queue filled");
    cmb_event_queue_execute();
    sym_assert(ran_awaited == 1, "awaited event ran once");
    sym_assert(nfill == NPEND - 1, "all fill events ran");
    sym_assert(nwoken == NWAIT, "every waiter was resumed");
    for (int i = 0; i < NWAIT; i++) sym_assert(wsig[i] == CMB_PROCESS_SUCCESS, "waiter resumed with success");
    for (int i = 0; i < NWAIT; i++) { cmb_process_terminate(w[i]); cmb_process_destroy(w[i]); }
    cmb_event_queue_terminate();
}

/* same, but the awaited event is cancelled instead of executed */
void h_evgrow_cancel(void)
{
    cmb_logger_flags_off(0xFFFFFFFFu);
    cmb_event_queue_initialize(0.0);
    awaited = cmb_event_schedule(ev_awaited, 0, 0, 5.0, 0);
    struct cmb_process *w[NWAIT];
    for (intptr_t i = 0; i < NWAIT; i++) {
        w[i] = cmb_process_create();
        cmb_process_initialize(w[i], "w", waiter, (void *)i, i < 2 ? sym_i64("wprio") : (int64_t)(i % 3));
        cmb_process_start(w[i]);
    }
    for (int i = 0; i < NWAIT; i++) sym_assert(cmb_event_execute_next(), "start event");
    for (int i = 0; i < NPEND - 1; i++) (void)cmb_event_schedule(ev_fill, 0, 0, 10.0 + i, 0);
    sym_assert(cmb_event_cancel(awaited), "cancel finds the event");
    cmb_event_queue_execute();
    sym_assert(ran_awaited == 0, "cancelled event did not run");
    sym_assert(nwoken == NWAIT, "every waiter was resumed");
    for (int i = 0; i < NWAIT; i++) sym_assert(wsig[i] == CMB_PROCESS_CANCELLED, "waiter resumed with cancelled");
    for (int i = 0; i < NWAIT; i++) { cmb_process_terminate(w[i]); cmb_process_destroy(w[i]); }
    cmb_event_queue_terminate();
}

/* ---- NWAIT processes queue for one resource / one pool / one condition: the waiting list (8 slots) and the
 * pool's holder list grow while the library walks them; the holder then releases / ends / is stopped */
static struct cmb_resource *res;
static struct cmb_resourcepool *pool;
static struct cmb_condition *cond;
static int served, cstate;
static void *holder(struct cmb_process *me, void *ctx)
{
    (void)me; (void)ctx;
    sym_assert(cmb_resource_acquire(res) == CMB_PROCESS_SUCCESS, "holder acquires");
    sym_assert(cmb_resourcepool_acquire(pool, 1) == CMB_PROCESS_SUCCESS, "holder acquires pool unit");
    cmb_process_hold(1.0);
    cstate = 1;
    cmb_condition_signal(cond);
    if (sym_choice(2, "holder_end") == 0) { cmb_resource_release(res); cmb_resourcepool_release(pool, 1); }
    return 0;      /* or ends while holding: everything is dropped */
}
static bool cond_pred(const struct cmb_condition *c, const struct cmb_process *p, const void *x) { (void)c; (void)p; (void)x; return cstate != 0; }
static void *queuer(struct cmb_process *me, void *ctx)
{
    (void)me;
    intptr_t k = (intptr_t)ctx;
    if (k % 3 == 0) { if (cmb_resource_acquire(res) == CMB_PROCESS_SUCCESS) { served++; cmb_resource_release(res); } }
    else if (k % 3 == 1) { if (cmb_resourcepool_acquire(pool, 1) == CMB_PROCESS_SUCCESS) { served++; cmb_process_hold(0.5); cmb_resourcepool_release(pool, 1); } }
    else { if (cmb_condition_wait(cond, cond_pred, 0) == CMB_PROCESS_SUCCESS) served++; }
    return 0;
}
void h_waitgrow(void)
{
    cmb_logger_flags_off(0xFFFFFFFFu);
    cmb_event_queue_initialize(0.0);
    res = cmb_resource_create(); cmb_resource_initialize(res, "r");
    pool = cmb_resourcepool_create(); cmb_resourcepool_initialize(pool, "p", NWAIT);
    cond = cmb_condition_create(); cmb_condition_initialize(cond, "c");
    struct cmb_process *h = cmb_process_create();
    cmb_process_initialize(h, "h", holder, 0, 5);
    cmb_process_start(h);
    struct cmb_process *w[3 * NWAIT];
    for (intptr_t i = 0; i < 3 * NWAIT; i++) {
        w[i] = cmb_process_create();
        cmb_process_initialize(w[i], "w", queuer, (void *)i, (i == 4) ? sym_i64("wprio") : (int64_t)(i % 4));
        cmb_process_start(w[i]);
    }
    cmb_event_queue_execute();
    sym_assert(served == 3 * NWAIT, "every queued process is eventually served");
    for (int i = 0; i < 3 * NWAIT; i++) { cmb_process_terminate(w[i]); cmb_process_destroy(w[i]); }
    cmb_process_terminate(h); cmb_process_destroy(h);
    cmb_condition_destroy(cond); cmb_resourcepool_destroy(pool); cmb_resource_destroy(res);
    cmb_event_queue_terminate();
}

/* many processes end while others wait for them: the tag pools and waiter lists are recycled */
static struct cmb_process *victim;
static int nw_done;
static void *w_waiter(struct cmb_process *me, void *ctx) { (void)me; (void)ctx; int64_t r = cmb_process_wait_process(victim); sym_assert(r == CMB_PROCESS_SUCCESS || r == CMB_PROCESS_STOPPED, "waiter resumed by the end of the victim"); nw_done++; return 0; }
static void *w_victim(struct cmb_process *me, void *ctx) { (void)me; (void)ctx; cmb_process_hold(1.0); return 0; }
void h_manywaiters(void)
{
    cmb_logger_flags_off(0xFFFFFFFFu);
    cmb_event_queue_initialize(0.0);
    victim = cmb_process_create(); cmb_process_initialize(victim, "v", w_victim, 0, 0); cmb_process_start(victim);
    struct cmb_process *w[NWAIT];
    for (int i = 0; i < NWAIT; i++) { w[i] = cmb_process_create(); cmb_process_initialize(w[i], "w", w_waiter, 0, (int64_t)i); cmb_process_start(w[i]); }
    double ts = sym_f64("t_stop"); sym_assume(ts >= 0.0 && ts <= 2.0);
    /* optionally stop the victim from outside at a symbolic time (before, at or after its own end) */
    while (cmb_event_execute_next()) {
        if (cmb_time() >= ts && cmb_process_status(victim) == CMB_PROCESS_RUNNING && sym_choice(2, "stop") == 1) cmb_process_stop(victim, 0);
    }
    sym_assert(nw_done == NWAIT, "every waiter was resumed exactly once");
    for (int i = 0; i < NWAIT; i++) { cmb_process_terminate(w[i]); cmb_process_destroy(w[i]); }
    cmb_process_terminate(victim); cmb_process_destroy(victim);
    cmb_event_queue_terminate();
}

const struct sym_entry sym_entries[] = { {"h_evgrow", h_evgrow}, {"h_evgrow_cancel", h_evgrow_cancel}, {"h_waitgrow", h_waitgrow}, {"h_manywaiters", h_manywaiters}, {0, 0} };
