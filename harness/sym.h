/* sym.h - harness intrinsics.  In the symbolic executor (E1) these are engine builtins; in the
 * native replay build they are implemented by sym_native.c, which feeds the values of a
 * counterexample (or of a passing path's model) back in call order. */
#ifndef VERIF_SYM_H
#define VERIF_SYM_H
#include <stdint.h>
extern int64_t  sym_i64(const char *name);
extern uint64_t sym_u64(const char *name);
extern double   sym_f64(const char *name);
extern uint64_t sym_choice(uint64_t n, const char *name);      /* value in [0, n) */
extern int64_t  sym_range(int64_t lo, int64_t hi, const char *name); /* lo <= v <= hi (signed) */
extern void     sym_assume(int c);
extern void     sym_assert(int c, const char *msg);
extern void     sym_tag(const char *name, int c);  /* named fact about the inputs, used by known-findings */
extern void     sym_note(const char *msg, uint64_t v);
extern void     sym_notef(const char *msg, double v);
extern void     sym_cover(const char *name);
extern void     sym_draws_rewind(void);             /* option sym_draws: the raw generator repeats its outputs from the first one */
extern void     sym_end(void);                      /* end of scenario (does not return) */
extern int      sym_is_replay(void);
extern void    *sym_fn(const char *name);           /* address of a file-static library function */
/* numbers handed to fprintf by the library since the last reset (engine only; count is 0 in native replay) */
extern void     sym_capture_reset(void);
extern uint64_t sym_capture_count(void);
extern double   sym_capture_f64(uint64_t i);
struct sym_entry { const char *name; void (*fn)(void); };
extern const struct sym_entry sym_entries[];     /* defined by each harness file, {0,0}-terminated */
#endif
